#!/bin/bash
# every thorough check once on the unchanged tree; one summary line per check
cd "$(dirname "$0")/.."
./setup.sh >/dev/null 2>&1
for c in ${@:-C19 C11 C13 C17 C16 C12 C20 C04 C09 C10 C08 C18 C06 C07 C01 C03 C02 C05 C14 C15}; do
  s=$(date +%s)
  out=$(./run_check.py $c --tier thorough --no-shrink 2>&1); rc=$?
  echo "$c rc=$rc $(( $(date +%s) - s ))s $(echo "$out" | tail -1)"
  if [ $rc -ne 0 ]; then echo "$out" | grep -E "bucket=|HARNESS|Error" | head -12 | cut -c1-600; fi
done
