#!/venv/bin/python
"""Confirm a seeded change delivered by a sub-agent and run our check(s) against it.

  tools/seedcheck.py <Cxx> <agent_out_dir> <i> [--checks C02,C03] [--tier quick] [--name slug]

Steps (all in a scratch copy of /repo's working tree outside /repo and /verif, removed afterwards):
  1. demo passes on the unchanged copy;  2. patch applies;  3. the 41 repo tests pass with the patch;
  4. demo fails with the patch;  5. run_check.py <check> with VERIF_REPO=<copy> for each listed check.
Writes /verif/seeded/<Cxx>-<i>/{patch.diff,demo.py,meta.json}.
"""
import json, os, shutil, subprocess, sys, tempfile, time
HERE = os.path.dirname(os.path.dirname(os.path.abspath(__file__)))


def sh(cmd, cwd, env=None, timeout=3600):
    r = subprocess.run(cmd, cwd=cwd, env=env, capture_output=True, text=True, timeout=timeout, shell=isinstance(cmd, str))
    return r.returncode, (r.stdout + r.stderr)


def main():
    a = sys.argv[1:]
    prop, src, i = a[0], a[1], a[2]
    checks = [prop]
    tier = 'quick'
    if '--checks' in a:
        checks = a[a.index('--checks') + 1].split(',')
    if '--tier' in a:
        tier = a[a.index('--tier') + 1]
    patch = os.path.join(src, 'change%s.diff' % i)
    demo = os.path.join(src, 'demo%s.py' % i)
    meta = json.load(open(os.path.join(src, 'meta%s.json' % i)))
    d = tempfile.mkdtemp(prefix='seedchk-', dir='/tmp')
    out = dict(property=prop, index=i, summary=meta.get('summary'), needs=meta.get('needs'), files=meta.get('files'))
    try:
        for name in ('pgradd', 'setup.py'):
            s = os.path.join('/repo', name)
            if os.path.isdir(s):
                shutil.copytree(s, os.path.join(d, name), ignore=shutil.ignore_patterns('__pycache__'))
            else:
                shutil.copy(s, d)
        os.makedirs(os.path.join(d, 'seeded_out'))
        shutil.copy(demo, os.path.join(d, 'seeded_out', 'demo.py'))
        env = dict(os.environ, PYTHONPATH='.', PYTHONHASHSEED='0')
        env.pop('VERIF_REPO', None)
        rc, o = sh(['/venv/bin/python', 'seeded_out/demo.py'], d, env)
        out['demo_unchanged_rc'] = rc
        if rc != 0:
            out['demo_unchanged_tail'] = o[-600:]
        rc, o = sh(['patch', '-p1', '-s', '--no-backup-if-mismatch', '-i', os.path.abspath(patch)], d)
        out['patch_applies'] = (rc == 0)
        if rc != 0:
            out['patch_err'] = o[-500:]
            print(json.dumps(out, indent=1)); return 1
        rc, o = sh(['/venv/bin/python', '-m', 'pytest', '-q', '-p', 'no:cacheprovider', 'pgradd/tests'], d, env)
        out['tests_rc'] = rc
        out['tests_tail'] = o.strip().splitlines()[-1] if o.strip() else ''
        rc, o = sh(['/venv/bin/python', 'seeded_out/demo.py'], d, env)
        out['demo_patched_rc'] = rc
        out['demo_patched_tail'] = o.strip()[-300:]
        out['checks'] = {}
        for c in checks:
            ev = os.path.join(HERE, 'evidence', c + '.json')
            bak = None
            if os.path.exists(ev):
                bak = ev + '.bak'; shutil.copy(ev, bak)
            t0 = time.time()
            env2 = dict(os.environ, VERIF_REPO=d, PYTHONHASHSEED='0')
            rc, o = sh([os.path.join(HERE, 'run_check.py'), c, '--tier', tier, '--no-shrink'], HERE, env2)
            if bak:
                shutil.move(bak, ev)
            viol = [l for l in o.splitlines() if 'bucket=' in l]
            for l in o.splitlines():
                if l.startswith('VIOLATION') and 'replay=' in l:
                    rp = os.path.join(HERE, l.split('replay=')[1].strip())
                    if os.path.exists(rp) and subprocess.run(['git', 'ls-files', '--error-unmatch', rp], cwd=HERE, capture_output=True).returncode != 0:
                        os.remove(rp)
            out['checks'][c] = dict(rc=rc, tier=tier, wall=round(time.time() - t0, 1), caught=(rc == 1),
                                    first=[v.strip()[:300] for v in viol[:3]], err=o[-800:] if rc == 2 else '')
        confirmed = (out['demo_unchanged_rc'] == 0 and out['tests_rc'] == 0 and out['demo_patched_rc'] != 0)
        out['confirmed'] = confirmed
        name = a[a.index('--name') + 1] if '--name' in a else '%s-%s' % (prop, i)
        if confirmed:
            dst = os.path.join(HERE, 'seeded', name)
            os.makedirs(dst, exist_ok=True)
            shutil.copy(patch, os.path.join(dst, 'patch.diff'))
            shutil.copy(demo, os.path.join(dst, 'demo.py'))
            metaout = dict(property=prop, summary=meta.get('summary'), needs=meta.get('needs'), files=meta.get('files'),
                           confirmed=dict(demo_passes_unchanged=True, tests_pass_with_change=out['tests_tail'],
                                          demo_fails_with_change=out['demo_patched_tail'][-200:]),
                           ran=['demo on a scratch copy of /repo (pass)', 'patch -p1 < patch.diff', 'pytest pgradd/tests (41 pass)',
                                'demo (fail)'] + ['VERIF_REPO=<copy> ./run_check.py %s --tier %s' % (c, tier) for c in checks],
                           detected_by={c: dict(caught=v['caught'], tier=v['tier'], buckets=v['first']) for c, v in out['checks'].items()})
            old = os.path.join(dst, 'meta.json')
            if os.path.exists(old):
                prev = json.load(open(old))
                pd = prev.get('detected_by', {})
                pd.update(metaout['detected_by'])
                metaout['detected_by'] = pd
            json.dump(metaout, open(old, 'w'), indent=1)
        print(json.dumps(out, indent=1))
        return 0
    finally:
        shutil.rmtree(d, ignore_errors=True)


if __name__ == '__main__':
    sys.exit(main())
