#!/bin/bash
# quietness runs: every quick check at several seeds on the unchanged tree; prints one line per run
cd "$(dirname "$0")/.."
./setup.sh >/dev/null 2>&1
for s in "$@"; do
  for c in C01 C02 C03 C04 C05 C06 C07 C08 C09 C10 C11 C12 C13 C14 C15 C16 C17 C18 C19 C20; do
    out=$(VERIF_SEED=$s ./run_check.py $c --tier quick --no-shrink 2>&1); rc=$?
    echo "seed=$s $c rc=$rc $(echo "$out" | tail -1)"
    if [ $rc -ne 0 ]; then echo "$out" | grep -E "bucket=|HARNESS|Error" | head -8; fi
  done
done
