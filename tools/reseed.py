#!/venv/bin/python
"""Re-confirm every kept seeded change against the CURRENT tree and the CURRENT checks.

  tools/reseed.py [id ...]       (default: all of seeded/*)
For each: scratch copy of /repo's working tree -> demo passes -> patch applies -> 41 tests pass -> demo fails ->
quick check of the property (VERIF_REPO=<copy>) must exit 1.  Updates seeded/<id>/meta.json (detected_by, reconfirmed).
"""
import json, os, shutil, subprocess, sys, tempfile, time
HERE = os.path.dirname(os.path.dirname(os.path.abspath(__file__)))


def sh(cmd, cwd, env=None):
    r = subprocess.run(cmd, cwd=cwd, env=env, capture_output=True, text=True, timeout=7200)
    return r.returncode, r.stdout + r.stderr


def one(sid):
    d0 = os.path.join(HERE, 'seeded', sid)
    meta = json.load(open(os.path.join(d0, 'meta.json')))
    prop = meta['property']
    d = tempfile.mkdtemp(prefix='reseed-', dir='/tmp')
    res = dict(id=sid)
    try:
        shutil.copytree('/repo/pgradd', os.path.join(d, 'pgradd'), ignore=shutil.ignore_patterns('__pycache__'))
        os.makedirs(os.path.join(d, 'seeded_out'))
        shutil.copy(os.path.join(d0, 'demo.py'), os.path.join(d, 'seeded_out', 'demo.py'))
        env = dict(os.environ, PYTHONPATH='.', PYTHONHASHSEED='0')
        env.pop('VERIF_REPO', None)
        res['demo_unchanged'] = sh(['/venv/bin/python', 'seeded_out/demo.py'], d, env)[0]
        rc, o = sh(['patch', '-p1', '-s', '--no-backup-if-mismatch', '-F', '3', '-i', os.path.join(d0, 'patch.diff')], d)
        res['patch'] = rc
        if rc != 0:
            res['error'] = o[-300:]
            return res
        rc, o = sh(['/venv/bin/python', '-m', 'pytest', '-q', '-p', 'no:cacheprovider', 'pgradd/tests'], d, env)
        res['tests'] = o.strip().splitlines()[-1] if o.strip() else str(rc)
        res['demo_patched'] = sh(['/venv/bin/python', 'seeded_out/demo.py'], d, env)[0]
        ev = os.path.join(HERE, 'evidence', prop + '.json')
        bak = ev + '.bak'
        if os.path.exists(ev):
            shutil.copy(ev, bak)
        t0 = time.time()
        rc, o = sh([os.path.join(HERE, 'run_check.py'), prop, '--tier', 'quick', '--no-shrink'], HERE, dict(os.environ, VERIF_REPO=d, PYTHONHASHSEED='0'))
        if os.path.exists(bak):
            shutil.move(bak, ev)
        for l in o.splitlines():
            if l.startswith('VIOLATION') and 'replay=' in l:
                rp = os.path.join(HERE, l.split('replay=')[1].strip())
                if os.path.exists(rp) and subprocess.run(['git', 'ls-files', '--error-unmatch', rp], cwd=HERE, capture_output=True).returncode != 0:
                    os.remove(rp)
        buckets = [l.strip()[:300] for l in o.splitlines() if 'bucket=' in l][:3]
        res.update(check_rc=rc, wall=round(time.time() - t0, 1), buckets=buckets)
        ok = res['demo_unchanged'] == 0 and '41 passed' in res['tests'] and res['demo_patched'] != 0
        meta.setdefault('detected_by', {})[prop] = dict(caught=(rc == 1), tier='quick', buckets=buckets)
        meta['reconfirmed'] = dict(on_repo_commit=subprocess.run(['git', '-C', '/repo', 'log', '--format=%h', '-1'], capture_output=True, text=True).stdout.strip(),
                                   demo_passes_unchanged=res['demo_unchanged'] == 0, tests=res['tests'], demo_fails_with_change=res['demo_patched'] != 0,
                                   still_valid=ok)
        json.dump(meta, open(os.path.join(d0, 'meta.json'), 'w'), indent=1)
        return res
    finally:
        shutil.rmtree(d, ignore_errors=True)


if __name__ == '__main__':
    ids = sys.argv[1:] or sorted(os.listdir(os.path.join(HERE, 'seeded')))
    bad = 0
    for sid in ids:
        r = one(sid)
        ok = r.get('patch') == 0 and r.get('demo_unchanged') == 0 and r.get('demo_patched', 0) != 0 and '41 passed' in r.get('tests', '') and r.get('check_rc') == 1
        bad += (not ok)
        print('%s %s demo0=%s patch=%s tests=%s demo1=%s check_rc=%s %s' % ('OK    ' if ok else 'ATTN  ', sid, r.get('demo_unchanged'), r.get('patch'), r.get('tests', '')[:12],
                                                                 r.get('demo_patched'), r.get('check_rc'), (r.get('buckets') or [r.get('error', '')])[0][:120]))
        sys.stdout.flush()
    sys.exit(1 if bad else 0)
