#!/usr/bin/env python3
"""Regenerate MANIFEST.json from the table below and validate it against the schema."""
import json, os, sys
HERE = os.path.dirname(os.path.dirname(os.path.abspath(__file__)))

CHECKS = {
 'C19': dict(
    technique='bounded-exhaustive + Hypothesis generation against an algebraic model (centre, multiset) of group identity',
    text='Every centre x multiset (<=4 quick / <=6 thorough peripherals) x ordering x run-length spelling is compared with '
         'equal and near-miss partners for ==, !=, hash, dict and library lookup, parse/name round trip and string '
         'interchangeability; random larger groups and malformed names. Exploration: exhaustive inside the bound, sampled beyond.',
    note='Trusted: Python dict/hash semantics. Names restricted to the shapes shipped libraries use.',
    ref='DESIGN.md C19'),
}
CHECKS['C10'] = dict(
    technique='exhaustive name x prefix table + Hypothesis grammar-shaped expression trees against an exact Fraction unit model; conversion round trips; outcome-class oracle for malformed text',
    text='All 37 documented unit names x 21 prefix choices are compared (value and seven exponents) with a Fraction table transcribed from the defining standards; '
         'thousands of generated expression trees (products, quotients, juxtaposition, parentheses, integer/negative/decimal powers, generated spacing) are evaluated by both; '
         'conversions are checked as ratios and there-and-back identities, incompatible ones must raise UnitsError; constructed malformed strings must raise UnitsParseError and '
         'token mutations must end in a number/quantity or UnitsParseError. Exploration: exhaustive for the name table, sampled for expressions.',
    note='Trusted: the transcription of the unit table from the standards; repository-documented values for u, eV, molecule, lbf, BTU. Float tolerance 1e-12 (1e-9 with fractional powers).',
    ref='DESIGN.md C10')
CHECKS['C11'] = dict(
    technique='exhaustive over ordered dimension-class pairs x operations against a (magnitude, exponent-vector) reference model; Hypothesis for magnitudes, arrays and operator chains',
    text='Every ordered pair of operand classes (7 base + 8 derived dimensions, plain number, bare zero) x {+,-,<,<=,>,>=,==,!=,in_units,*,/} x a pool of magnitude pairs is executed and compared with '
         'a tuple model (UnitsError / False / True for incompatible operands, magnitude arithmetic otherwise); unary -, abs and ** with integer, negative and fractional exponents; random '
         'magnitudes, array quantities, plain lists/arrays and chains whose exponents cancel only up to round-off. Exploration: exhaustive over class pairs, sampled over magnitudes.',
    note='Trusted: Python/numpy float arithmetic. Operands built from SI-coherent unit strings so the SI magnitude is exactly the generated number (asserted at start-up).',
    ref='DESIGN.md C11')
CHECKS['C05'] = dict(
    technique='Hypothesis cell-stratified Cp tables; invariants at the data + independent Gauss-Legendre quadrature of the object\'s own Cp/R; three construction paths and all supply orders must agree',
    text='Tables of 1-16 points are drawn cell-first (N class x T_ref placement x supply order), built directly, via ThermochemGroup(dict) and from YAML, and checked at every knot, range end, '
         'T_ref and across every break point: knots reproduced, H/S at T_ref, d(T*H/RT) and d(S/R) against composite 24-point Gauss-Legendre quadrature, constant extrapolation, G=H-S, scalar vs array '
         'evaluation; plus every shipped group with Cp data. Exploration with measured tolerances (S: 1e-4 of the path integral of |Cp/T|, because the code uses quad at default tolerance).',
    note='Trusted: numpy Gauss-Legendre nodes; scipy spline evaluation (the integrand is the object\'s own Cp/R, its shape between knots is not asserted).',
    ref='DESIGN.md C05')
CHECKS['C06'] = dict(
    technique='Hypothesis boundary-directed temperatures against a range-validity predicate (raise / warn / finite real) over synthetic correlations, synthetic estimates and all shipped groups',
    text='Single correlations and estimates over 1-6 generated constituents (nested, overlapping, touching, disjoint, undeclared ranges) and every shipped group are evaluated for Cp/R, H/RT, S/R, G/RT at '
         'nextafter/1e-9-relative neighbours of every bound, at the bounds, far outside, 0, negative and +inf. Inside: finite real; outside: exception, or IncompleteDataWarning only via constituents without '
         'Cp data; the estimate range must equal the intersection. Exploration.',
    note='Trusted: Python warnings machinery (catch_warnings, filter always). Constituents with Cp data but no declared range are judged on their table span only.',
    ref='DESIGN.md C06')
CHECKS['C01'] = dict(
    technique='exhaustive unit vectors + Hypothesis descriptor->count mappings against an fsum reference over the constituent correlations; error-set equality for descriptors without data',
    text='For the 9 shipped libraries (every unit vector, random mappings with integer/fractional/zero/negative counts, string and Group keys, fresh and previously used library objects) and for synthetic '
         'in-memory libraries (groups lacking H, S, Cp or the whole property set, two names sharing one correlation object), Cp/R, H/RT, S/R and G/RT of the estimate are compared with fsum(count*group value) '
         'at range ends, reference temperatures and interior points; properties a constituent lacks must raise IncompleteDataError; descriptors without the property set must be named exactly by '
         'GroupMissingDataError. Exploration.',
    note='Trusted: the per-group correlations as the reference (their own correctness is C05). Tolerance 1e-10*sum|term|+1e-12.',
    ref='DESIGN.md C01')
CHECKS['C20'] = dict(
    technique='exhaustive basis unit vectors + Hypothesis mappings against a reference quadratic form read from the YAML; scaling and permutation metamorphic relations',
    text='For the three shipped uncertainty-carrying libraries (every basis unit vector, random integer/fractional mappings, scaled by k in {-3,-1,0.5,2,10}, re-ordered, with an out-of-basis descriptor) '
         'and synthetic libraries with a generated PSD matrix and a basis order different from the library order, each standard error is compared with |RMSE_X(T)|*sqrt(x\'Mx) computed by the harness from '
         'uq.yaml, must be a non-negative plain float, scale with |k|, not depend on mapping order; out-of-basis descriptors must raise. Exploration.',
    note='Trusted: yaml.safe_load of uq.yaml; the loaded RMSE correlation as the value of RMSE_X(T).',
    ref='DESIGN.md C20')
CHECKS['C07'] = dict(
    technique='Hypothesis molecule generators x all gas-constant unit strings; algebraic identities and unit-ratio metamorphic relation; elemental clause against an independent formula-based atom count',
    text='Estimates for generated molecules (gas, aromatic, radical, Pt/Ru adsorbate families per shipped library, decomposed immediately before Estimate, optionally after another molecule) and every shipped '
         'group correlation are checked for H=(H/RT)TR, S=(S/R)R, Cp=(Cp/R)R, G=H-TS over the unit strings of the gas-constant table, for the exact ratio between two units, and for '
         'S/R(T,True)=S/R(T)-sum n_Z S_el[Z] with n_Z parsed from the molecular formula. Exploration.',
    note='Trusted: pmutt gas-constant and elemental-entropy tables; RDKit CalcMolFormula.',
    ref='DESIGN.md C07')
CHECKS['C18'] = dict(
    technique='Hypothesis-generated correlations x output-unit choices, round trip format -> load with presence/exactness/6-digit comparison; all shipped groups',
    text='ThermochemGroup objects (0-15 Cp points, H/S present/absent/zero/negative, with/without range, float and numpy.float64 values over 11 decades) are formatted with 9 unit choices '
         '(none, kcal|kJ|J|cal per mol, K/mK/kK) and re-loaded through the tagged YAML loader; presence pattern, T_ref, range and table temperatures (6 digits), non-dimensional values (exact) and '
         'dimensional values (6 digits) must survive. Every shipped group x 3 unit choices too. Exploration.',
    note='Trusted: PyYAML scalar parsing. 6 significant digits = 5e-6 relative.',
    ref='DESIGN.md C18')
CHECKS['C12'] = dict(
    technique='Hypothesis synthetic libraries rendered to YAML in several unit presentations (libgen); metamorphic agreement across presentations and with the abstract data; rejection of unit-less dimensional values',
    text='Each generated library (2-6 groups, zero/negative/tiny/large values, 0-7 Cp points, ranges) is written as non-dimensional keys, with a file-level default-unit block (also inside an included file under a '
         'root with other defaults), with explicit per-value units and prefixes, and as a per-value mixture; all must load, store T_ref/range/table temperatures equal to the data, evaluate to the same Cp/R, H/RT, '
         'S/R on a grid as plain numbers; a dimensional value with no unit available must make Load fail. Exploration.',
    note='Trusted: unit factors from vlib.unitsref; gas constant 8.314472 J/(mol K) as documented in Consts.py; PyYAML.',
    ref='DESIGN.md C12')
CHECKS['C13'] = dict(
    technique='Hypothesis data splits x include trees against a dict-union reference model; RuleBasedStateMachine over update/copy/evaluate histories with atomicity and idempotence invariants',
    text='A group\'s data (H, S, each Cp point, range; zero values included) are assigned to non-empty subsets of 1-4 files arranged in generated include trees (flat, chain, nested, diamond) and orders; the loaded '
         'library must equal the un-split data; injected conflicts must raise ReadOnlyDataError (overwrite: later value), two spellings in one file must be rejected, a range given in a file of its own must survive; '
         'a state machine applies update(a,b,overwrite) / copy / evaluate / repeated updates to ThermochemGroup objects next to a dict-union model, checking failure atomicity, idempotence and that sources are untouched. Exploration.',
    note='Trusted: the dict-union model (validated against the code in the design round). All files of a scenario share one reference temperature.',
    ref='DESIGN.md C13')
CHECKS['C14'] = dict(
    technique='bounded-exhaustive enumeration of the shipped configuration (libraries x locations x entries) against self-consistency predicates and cross-location fingerprint equality; second independent RING parser',
    text='All 9 bundled libraries are loaded in fresh interpreters by name, by path, from a relocated copy selected with pgradd_DATA_DIR (absolute and relative) and by path from a copy with an edited scheme; '
         'fingerprints must be identical and come from the right files. Every group is evaluated for each property it has data for across its range (finite plain numbers), every connectivity string is read by the '
         'library reader and by vlib/ringparse.py, remaps are checked well-formed and chain-free, uncertainty bases must name entries with data and matrices be square, basis-sized, symmetric, PSD. '
         'Exhaustive over a finite space (reported as exploration).',
    note='Trusted: numpy eigvalsh; the independent parser as second reader. Fresh interpreters import the same working tree.',
    ref='DESIGN.md C14')
CHECKS['C08'] = dict(
    technique='Hypothesis grammar-directed and molecule-directed RING fragments x generated molecules, differential against a brute-force reference matcher; layout/label metamorphic relation; bounded-exhaustive small fragments',
    text='Fragments (1-5 atoms; all symbol classes, prefixes, suffixes, bond kinds, constraint forms, comparison operators, negation, molecule prefixes; random layout and keyword-like labels) are rendered to text, '
         'read by the library and matched against molecules in the as-read and scheme-normalised states; the returned tuple set must equal the set enumerated by vlib/ringref.py (all injective assignments, own '
         'molecule model), contain no duplicates, and not change under re-layout / re-labelling. 1- and 2-atom fragments over a reduced alphabet are enumerated against a fixed molecule pool. Exploration.',
    note='Trusted: RDKit SMILES reading, ring perception, aromaticity flags. Not trusted: RDKit substructure search (what the code delegates to). Unspecified features (* suffix, allylic, lower-case symbols) not generated.',
    ref='DESIGN.md C08')
CHECKS['C02'] = dict(
    technique='Hypothesis molecule generators x shipped and synthetic scheme files, differential against an independent scheme interpreter (own RING parser + brute-force matcher + group naming)',
    text='Generated molecules (gas C/H/O, alkenes with cis/trans marks and long chains, aromatics, radicals, Pt/Ru adsorbates, out-of-vocabulary) are decomposed by the library and by vlib/schemeref.py, which reads '
         'the same scheme.yaml as a program; key sets and counts must agree and PatternMatchError must be raised exactly when the reference finds an unassigned or ambiguous atom. Pattern coverage of each scheme file is '
         'reported. Exploration; ortho-fused aromatics are a known finding.',
    note='Trusted: RDKit SMILES reading, Kekulisation, ring perception; PyYAML. The denotation table of DESIGN.md 3.3.',
    ref='DESIGN.md C02')
CHECKS['C03'] = dict(
    technique='Hypothesis molecule generators x RDKit-produced equivalent spellings (metamorphic), exhaustive atom permutations for small molecules, Mol objects vs SMILES',
    text='For each shipped scheme, generated molecules are written in 8-30 equivalent spellings (renumbered, rooted, explicit-H, Kekule, Mol objects with/without H, renumbered Mol); all must give the same descriptors or '
         'the same failure, and sampled estimates must agree; every atom permutation of small molecules is tried through Mol objects and SMILES. Exploration; ortho-fused aromatics are a known finding.',
    note='Trusted: RDKit to produce equivalent spellings of one parsed molecule (re-read and compared by canonical SMILES).',
    ref='DESIGN.md C03')
CHECKS['C04'] = dict(
    technique='Hypothesis pairs/triples of generated molecules per scheme, additivity metamorphic relation over the dot-disconnected SMILES in both orders',
    text='For every shipped scheme, ordered pairs and triples of generated molecules (incl. self-pairs, failing components, single atoms, bare metals, and pairs drawn from a pool rich in correction descriptors, '
         'heterocycles and aromatics) are decomposed separately and as A.B / B.A; the mixture must give the descriptor-wise sum, fail exactly when a component fails, and sampled estimates must add. Exploration.',
    note='Trusted: RDKit reading of dot-disconnected SMILES. Fused aromatics excluded (known finding of C02/C03).',
    ref='DESIGN.md C04')
CHECKS['C09'] = dict(
    technique='Hypothesis grammar-generated valid texts, every prefix, token mutations, label misuse, unsupported constructs and random text against an outcome-class predicate with a deterministic parser-step bound; junk-suffix metamorphic relation',
    text='Every input must end as a MolQuery/ReactionQuery, a RINGSyntaxError whose position lies inside the text and whose str() works, a RINGReaderError or NotImplementedError; anything else is a stray exception bucketed by '
         '(type, innermost pgradd frame). Non-termination is detected by counting ParseState.peek/take calls against 2000+200*len. Accepted text followed by a junk token must not be accepted. Exploration (thorough tier adds an atheris campaign).',
    note='Trusted: nothing of the parser. The step bound makes "bounded time" deterministic; a SIGALRM backstop only marks runs inconclusive.',
    ref='DESIGN.md C09')
CHECKS['C16'] = dict(
    technique='Hypothesis rules generated with electron bookkeeping (balanced / deliberately unbalanced), differential against an own graph-rewriting reference on reference matches; labelled-graph isomorphism of product sets',
    text='Unimolecular rules (reactant fragment of 1-4 atoms, often abstracted from the molecule they run on; break/form/increase/decrease/modify bond, radical and charge edits; random layout) are read: an independent '
         'electron-balance count must predict acceptance vs RINGReaderError; accepted rules are run on small molecules and radicals and must return one product set per reference match, each equal (as a labelled graph) to '
         'the declared edit applied at the matched atoms, conserving atoms per element. Exploration.',
    note='Trusted: RDKit AddHs/SMILES reading; networkx isomorphism. Reference matches come from vlib/ringref.py (C08 compares it with the library).',
    ref='DESIGN.md C16')
CHECKS['C17'] = dict(
    technique='Hypothesis seed sets x rule sets (reaction SMARTS or equivalent RING text), differential against an independent breadth-first closure on an own graph model; step-capped termination',
    text='Seed sets of 1-2 small neutral molecules and 1-3 rules from a pool of scission / bond-order rules (each as SMARTS or RING text) are expanded by GenerateRxnNet; the canonicalised result must contain every seed, '
         'equal the reference closure as a set, list nothing twice, and finish within 10x the reference closure size in rule applications (counted through a proxy rule object). Exploration.',
    note='Trusted: RDKit ChemicalReaction for SMARTS rules, AddHs; networkx WL hash for species identity. Radicals are the valence deficit; charged species out of domain.',
    ref='DESIGN.md C17')
CHECKS['C15'] = dict(
    technique='Hypothesis RuleBasedStateMachine over load / decompose / estimate / evaluate / merge histories; reference model = answers of fresh interpreter processes; fingerprint invariant over all live library objects',
    text='Per shard, 3 libraries x 6 molecules get their single-operation answers (descriptors, estimate outcome, every property on a grid with and without the elemental reference, library fingerprint) from fresh '
         'processes; a state machine then interleaves loads, decompositions, estimates from ANY earlier decomposition, evaluations, same-library merges and overwriting cross-library merges on up to 6 objects and '
         'compares each value with the table (descriptors exact, numbers 1e-12); every live, un-mixed library object must keep its fingerprint. Exploration; the elemental reference of an estimate made after a later '
         'decomposition is a known finding.',
    note='Trusted: fresh processes of the same working tree as the reference. The target of an overwriting cross-library merge is excluded from comparison afterwards.',
    ref='DESIGN.md C15')
NOT_YET = {}

def main():
    props = [json.loads(l) for l in open(os.path.join(HERE, 'properties.jsonl'))]
    checks = []
    na = []
    for p in props:
        pid = p['id']
        c = CHECKS.get(pid)
        if c is None:
            na.append(dict(property_id=pid, reason=NOT_YET.get(pid, 'check not built yet in this round (planned, see DESIGN.md section 4)')))
            continue
        checks.append(dict(
            property_id=pid,
            quick_cmd='./run_check.py %s --tier quick' % pid,
            thorough_cmd='./run_check.py %s --tier thorough' % pid,
            evidence_file='evidence/%s.json' % pid,
            replay_cmd_template='./run_check.py %s --replay {path}' % pid,
            engine='hypothesis',
            level_claimed=dict(category='exploration', text=c['text'], design_ref=c['ref']),
            level_note=c['note'],
            technique=c['technique']))
    man = dict(
        version=1,
        setup_cmd='./setup.sh',
        hooks=dict(guard='PGRADD_VERIF',
                   enable='no source hooks: the checks import /repo\'s working tree directly (VERIF_REPO overrides the path) and observe through Python-level wrappers installed by the harness',
                   baseline_off_cmd='cd /repo && /venv/bin/python -m pytest -ra -q -p no:cacheprovider --timeout=900 --continue-on-collection-errors',
                   source_commits=[], add_only=True),
        engines=[dict(name='hypothesis', path='run_check.py', serves_properties=[c['property_id'] for c in checks],
                      kind_free_text='Hypothesis 6.168 strategies + bounded-exhaustive enumerators, sharded over 16 processes, collecting-mode oracles with root-cause buckets (vlib/core.py)')],
        checks=checks,
        notes='All checks: ./run_check.py <id> --tier quick|thorough; exit 0 held / 1 VIOLATION / 2 harness error. Known findings in known_findings.json.',
        not_applicable=na)
    json.dump(man, open(os.path.join(HERE, 'MANIFEST.json'), 'w'), indent=1)
    try:
        import jsonschema
        jsonschema.validate(man, json.load(open('/root/.vp/MANIFEST.schema.json')))
        print('MANIFEST.json valid; %d checks, %d not claimed' % (len(checks), len(na)))
    except ImportError:
        print('jsonschema not available; wrote MANIFEST.json unvalidated')

if __name__ == '__main__':
    main()
