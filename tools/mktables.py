#!/usr/bin/env python3
"""Regenerate the generated tables of DESIGN.md (between the GENERATED markers) from known_findings.json,
seeded/*/meta.json and selftest/mutants.json."""
import glob, json, os, re
HERE = os.path.dirname(os.path.dirname(os.path.abspath(__file__)))

def main():
    kf = json.load(open(os.path.join(HERE, 'known_findings.json')))['findings']
    out = []
    out.append('### 9.1 Findings (from `known_findings.json`)\n')
    out.append('| property | status | repo commit | bucket key | what failed |')
    out.append('|---|---|---|---|---|')
    for f in kf:
        out.append('| %s | %s | %s | `%s` | %s |' % (f['property'], f['status'], f.get('commit', '-'), f['key'], f['what'].replace('|', '\\|')[:400]))
    out.append('')
    out.append('### 9.2 Seeded changes written by independent sub-agents (`seeded/<id>/`) and the checks that catch them\n')
    out.append('| seeded change | what was changed | needs | caught by (quick tier) | first bucket |')
    out.append('|---|---|---|---|---|')
    for d in sorted(glob.glob(os.path.join(HERE, 'seeded', '*'))):
        mp = os.path.join(d, 'meta.json')
        if not os.path.exists(mp):
            continue
        m = json.load(open(mp))
        det = m.get('detected_by', {})
        caught = ', '.join('%s%s' % (k, '' if v.get('caught') else ' (MISSED)') for k, v in det.items())
        first = ''
        for k, v in det.items():
            if v.get('buckets'):
                first = v['buckets'][0].split(' count=')[0].replace('bucket=', '')
                break
        out.append('| %s | %s | %s | %s | `%s` |' % (os.path.basename(d), (m.get('summary') or '').replace('|', '\\|')[:260],
                                                   (m.get('needs') or '').replace('|', '\\|')[:260], caught, first))
    out.append('')
    muts = json.load(open(os.path.join(HERE, 'selftest', 'mutants.json')))
    out.append('### 9.3 Own seeded faults (`selftest/mutants.json`, run with `selftest/mut.py --all`): %d mutants, each caught by its quick check\n' % len(muts))
    by = {}
    for m in muts:
        by.setdefault(m['property'], []).append(m['id'])
    out.append('| property | mutants |')
    out.append('|---|---|')
    for p in sorted(by):
        out.append('| %s | %s |' % (p, ', '.join(by[p])))
    out.append('')
    text = '\n'.join(out)
    p = os.path.join(HERE, 'DESIGN.md')
    s = open(p).read()
    a, b = '<!-- GENERATED:BEGIN -->', '<!-- GENERATED:END -->'
    if a in s:
        s = s[:s.index(a) + len(a)] + '\n' + text + '\n' + s[s.index(b):]
    else:
        s += '\n' + a + '\n' + text + '\n' + b + '\n'
    open(p, 'w').write(s)
    print('tables regenerated: %d findings, %d seeded, %d mutants' % (len(kf), len(glob.glob(os.path.join(HERE, 'seeded', '*'))), len(muts)))

if __name__ == '__main__':
    main()
