#!/venv/bin/python
"""atheris (libFuzzer) targets for the two pure-Python parsers.  Collecting mode: a semantic-oracle failure is
appended to <outdir>/findings.jsonl and fuzzing goes on; only the parent process judges (known findings, replay).

  fuzz/target.py <c09|c10> <outdir> [libFuzzer flags ...] [corpus dirs ...]
"""
import json
import os
import sys

HERE = os.path.dirname(os.path.dirname(os.path.abspath(__file__)))
sys.path.insert(0, HERE)
sys.path.append(os.path.join(HERE, '.deps'))
which, outdir = sys.argv[1], sys.argv[2]
argv = [sys.argv[0]] + sys.argv[3:]

import atheris  # noqa: E402

from vlib.core import setup_imports  # noqa: E402
with atheris.instrument_imports(include=['pgradd.RINGParser', 'pgradd.Units', 'pgradd.RDkitWrapper']):
    setup_imports()
    import pgradd.RINGParser.Parser  # noqa
    import pgradd.RINGParser.Grammar  # noqa
    import pgradd.RINGParser.MolQueryRead  # noqa
    import pgradd.RINGParser.ReactionQueryRead  # noqa
    import pgradd.Units.parser  # noqa
    import pgradd.Units  # noqa

seen = set()
stats = dict(execs=0, accepted=0, rejected=0, findings=0)
fout = open(os.path.join(outdir, 'findings.jsonl'), 'a')


def report(bucket, text, msg):
    if bucket in seen and len(text) > 40:
        return
    seen.add(bucket)
    stats['findings'] += 1
    fout.write(json.dumps(dict(bucket=bucket, text=text, msg=msg[:300])) + '\n')
    fout.flush()


if which == 'c09':
    from props import C09
    TOK = C09.SUBST + ['c1', 'c2', 'h1', 'a', 'r', '{', '}', ' ', ' ', '\n', 'labeled', 'fragment', 'bond to', 'single', 'C', 'H', 'O']

    def decode(data):
        fdp = atheris.FuzzedDataProvider(data)
        if fdp.ConsumeBool():
            return fdp.ConsumeUnicodeNoSurrogates(200)
        n = fdp.ConsumeIntInRange(0, 40)
        return ''.join((TOK[fdp.ConsumeIntInRange(0, len(TOK) - 1)] + (' ' if fdp.ConsumeBool() else '')) for _ in range(n))

    def one(data):
        text = decode(data)
        stats['execs'] += 1
        cls, detail = C09.read(text)
        if cls == 'accepted':
            stats['accepted'] += 1
            c2, _ = C09.read(text + ' }')
            if c2 == 'accepted':
                report('trailing-text-accepted', text + ' }', 'accepted with trailing junk')
        else:
            stats['rejected'] += 1
        if cls not in C09.GOOD and cls != 'watchdog':
            report(cls, text, detail)

else:
    from props import C10
    m = C10._pg()
    NAMES = C10.NAMES + [p + n for p in ('k', 'm', 'da', 'M', 'u') for n in ('J', 'mol', 'm', 's', 'g', 'cal', 'Pa')] + \
        ['*', '/', '^', '(', ')', ' ', ' ', '-1', '2', '0.5', '10', '1e3', '.', '-', 'x', 'nan']

    def decode(data):
        fdp = atheris.FuzzedDataProvider(data)
        if fdp.ConsumeBool():
            return fdp.ConsumeUnicodeNoSurrogates(80)
        n = fdp.ConsumeIntInRange(0, 14)
        return ''.join((NAMES[fdp.ConsumeIntInRange(0, len(NAMES) - 1)] + (' ' if fdp.ConsumeBool() else '')) for _ in range(n))

    def ev(text):
        try:
            return ('ok', m['eval_qty'](text))
        except m['UnitsParseError']:
            return ('UnitsParseError', None)
        except (ZeroDivisionError, OverflowError):
            return ('out-of-domain', None)
        except Exception as e:
            if 'complex' in str(e) or "j)" in str(e):
                return ('out-of-domain', None)
            return ('stray:%s' % type(e).__name__, str(e)[:200])

    import re
    BIG = re.compile(r'\^\s*\(?\s*-?\d{3,}|\d{7,}')

    def one(data):
        text = decode(data)
        # huge integer powers (10^99999999, nested powers) are arithmetic the property does not cover and take forever
        if BIG.search(text) or text.count('^') > 2:
            stats['skipped'] = stats.get('skipped', 0) + 1
            return
        stats['execs'] += 1
        a = ev(text)
        if a[0].startswith('stray'):
            report(a[0], text, a[1])
            return
        if a[0] != 'ok':
            stats['rejected'] += 1
            return
        stats['accepted'] += 1
        val, exps, kind = C10.unpack(a[1])
        if exps is not None and not all(abs(x) < 1e6 for x in exps):
            return                      # infinite / absurd exponents: arithmetic outside the property
        if isinstance(val, complex) or exps is None:
            if not isinstance(val, complex):
                report('result-type:%s' % kind, text, repr(a[1]))
            return
        # metamorphic: parenthesising an accepted expression changes nothing
        b = ev('(' + text + ')')
        if b[0] == 'ok':
            v2, e2, _ = C10.unpack(b[1])
            same = (e2 == exps) and (v2 == val or (isinstance(v2, float) and isinstance(val, (int, float)) and (v2 != v2 and val != val or abs(v2 - val) <= 1e-12 * abs(val))))
            if not same:
                report('parenthesised-value-differs', text, '%r vs %r' % (a[1], b[1]))
        elif b[0] == 'UnitsParseError':
            report('parenthesised-expression-rejected', text, 'accepted as %r but "(%s)" is rejected' % (a[1], text))


def _dump():
    with open(os.path.join(outdir, 'stats.json'), 'w') as f:
        json.dump(stats, f)


def TestOneInput(data):
    try:
        one(data)
    except Exception as e:      # an exception in the target's own bookkeeping must not end the campaign
        try:
            report('target-internal:%s' % type(e).__name__, decode(data), str(e)[:200])
        except Exception:
            pass
    if stats['execs'] % 500 == 0:
        _dump()          # libFuzzer leaves through _exit: nothing runs at exit, so the counters are flushed on the way


atheris.Setup(argv, TestOneInput)
atheris.Fuzz()
