#!/bin/sh
# Offline setup: make sure hypothesis is importable by /venv/bin/python; atheris (thorough tier only) into .deps.
set -e
cd "$(dirname "$0")"
/venv/bin/python -c "import hypothesis" 2>/dev/null || \
  /venv/bin/pip install --no-index --find-links /opt/veriftools/wheels hypothesis
if [ ! -d .deps/atheris ]; then
  /venv/bin/pip install -q --no-index --find-links /opt/veriftools/wheels --target .deps atheris 2>/dev/null || true
fi
/venv/bin/python -c "import hypothesis, rdkit, numpy, scipy, yaml; print('setup ok: hypothesis', hypothesis.__version__)"
