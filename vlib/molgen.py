"""Molecule generators: labelled graphs are *constructed* (valence bookkeeping), turned into an RDKit molecule
and written out as SMILES.  All random choices are Hypothesis draws.

A generated case is a plain SMILES string (JSON-able).  Families:
  gas        C/H/O skeletons: chains, branches, rings (3-8, spiro/bridged by ring closure), C=C, C#C, C=O, acids,
             esters, ethers, alcohols, peroxides, optional cis/trans marks
  aromatic   gas + phenyl / substituted benzene / biphenyl / fused (naphthalene, anthracene) cores
  radical    gas or aromatic with one H removed from a C or O (mono-radical), rarely a carbene
  adsorbate  gas skeleton with 1-4 H atoms replaced by single bonds to a metal atom (Pt or Ru)
  ooV        out-of-vocabulary: N/S/halogen/B atoms, charged atoms, bare metals
"""
import itertools

from hypothesis import strategies as st
from rdkit import Chem

VAL = {'C': 4, 'O': 2, 'N': 3, 'S': 2, 'F': 1, 'Cl': 1, 'B': 3}


class G(object):
    """growing graph with valence bookkeeping"""

    def __init__(self):
        self.el = []
        self.free = []
        self.bonds = {}      # (i,j) i<j -> order
        self.rad = {}

    def add(self, el):
        self.el.append(el)
        self.free.append(VAL[el])
        return len(self.el) - 1

    def bond(self, i, j, o):
        a, b = min(i, j), max(i, j)
        self.bonds[(a, b)] = o
        self.free[i] -= o
        self.free[j] -= o

    def dist(self, i, j, cap=9):
        adj = {}
        for (a, b) in self.bonds:
            adj.setdefault(a, []).append(b)
            adj.setdefault(b, []).append(a)
        seen, front, d = {i}, [i], 0
        while front and d < cap:
            d += 1
            nxt = []
            for u in front:
                for v in adj.get(u, []):
                    if v == j:
                        return d
                    if v not in seen:
                        seen.add(v)
                        nxt.append(v)
            front = nxt
        return cap

    def to_mol(self, metal=None, metal_sites=(), hetero_charge=None):
        m = Chem.RWMol()
        for i, e in enumerate(self.el):
            a = Chem.Atom(e)
            if i in self.rad:
                a.SetNumRadicalElectrons(self.rad[i])
                a.SetNoImplicit(True)
                a.SetNumExplicitHs(max(0, self.free[i] - self.rad[i]))
            m.AddAtom(a)
        order = {1: Chem.BondType.SINGLE, 2: Chem.BondType.DOUBLE, 3: Chem.BondType.TRIPLE}
        for (a, b), o in self.bonds.items():
            m.AddBond(a, b, order[o])
        for i in metal_sites:
            k = m.AddAtom(Chem.Atom(metal))
            m.AddBond(i, k, Chem.BondType.SINGLE)
        mol = m.GetMol()
        Chem.SanitizeMol(mol)
        return mol


@st.composite
def skeleton(draw, max_heavy=12, elements=('C', 'C', 'C', 'C', 'O'), multi=True, rings=True):
    g = G()
    g.add('C')
    n = draw(st.integers(1, max_heavy))
    for _ in range(n - 1):
        cand = [i for i in range(len(g.el)) if g.free[i] > 0]
        if not cand:
            break
        # prefer recent atoms (chains) but allow any (branches)
        i = cand[-1] if draw(st.integers(0, 2)) else draw(st.sampled_from(cand))
        e = draw(st.sampled_from(elements))
        if g.el[i] == 'O' and e == 'O' and draw(st.integers(0, 3)):
            e = 'C'                      # peroxides allowed but rare
        j = g.add(e)
        omax = min(g.free[i], g.free[j], 3 if multi else 1)
        o = 1
        if omax >= 2 and draw(st.integers(0, 5)) == 0:
            o = 2
            if omax >= 3 and draw(st.integers(0, 3)) == 0:
                o = 3
        g.bond(i, j, o)
    if rings and len(g.el) >= 3:
        for _ in range(draw(st.sampled_from([0, 0, 0, 1, 1, 2]))):
            cand = [i for i in range(len(g.el)) if g.free[i] > 0]
            pairs = [(a, b) for a, b in itertools.combinations(cand, 2)
                     if (min(a, b), max(a, b)) not in g.bonds and 2 <= g.dist(a, b) <= 7]
            if not pairs:
                break
            a, b = draw(st.sampled_from(pairs))
            # small rings with multiple bonds at the closure atoms are strained nonsense; keep closures single
            g.bond(a, b, 1)
    return g


def _smiles(mol):
    return Chem.MolToSmiles(mol)


@st.composite
def gas(draw, max_heavy=12, stereo=True):
    g = draw(skeleton(max_heavy))
    try:
        mol = g.to_mol()
    except Exception:
        return 'CC'
    smi = _smiles(mol)
    if stereo and draw(st.integers(0, 2)) == 0:
        smi = draw(stereo_variant(smi))
    return smi


@st.composite
def stereo_variant(draw, smi):
    """pick one of the cis/trans assignments of the stereo-capable double bonds (RDKit enumerates them)"""
    from rdkit.Chem.EnumerateStereoisomers import EnumerateStereoisomers, StereoEnumerationOptions
    mol = Chem.MolFromSmiles(smi)
    if mol is None:
        return smi
    opts = StereoEnumerationOptions(unique=True, maxIsomers=8, tryEmbedding=False)
    try:
        isos = list(EnumerateStereoisomers(mol, options=opts))
    except Exception:
        return smi
    if len(isos) <= 1:
        return smi
    out = sorted(set(Chem.MolToSmiles(m) for m in isos))
    # tetrahedral centres are irrelevant to the schemes but harmless
    return draw(st.sampled_from(out))


AROM_CORES = ['c1ccccc1', 'c1ccccc1', 'c1ccccc1', 'c1ccc(cc1)-c1ccccc1', 'c1ccc2ccccc2c1', 'c1ccc2cc3ccccc3cc2c1',
              'c1ccc2c(c1)ccc1ccccc12', 'c1ccoc1', 'C1=CC=CC=C1']


@st.composite
def aromatic(draw, max_side=5, fused='maybe'):
    cores = AROM_CORES if fused == 'maybe' else ([c for c in AROM_CORES if '2' not in c] if fused == 'no' else
                                                  [c for c in AROM_CORES if '2' in c])
    core = Chem.RWMol(Chem.MolFromSmiles(draw(st.sampled_from(cores))))
    nsub = draw(st.integers(0, 3))
    for _ in range(nsub):
        sites = [a.GetIdx() for a in core.GetAtoms() if a.GetIsAromatic() and a.GetTotalNumHs() > 0]
        if not sites:
            break
        i = draw(st.sampled_from(sites))
        side = draw(skeleton(draw(st.integers(1, max_side)), rings=False))
        try:
            sm = side.to_mol()
        except Exception:
            continue
        # attach side chain atom 0 (must have a free valence)
        if side.free[0] < 1:
            continue
        off = core.GetNumAtoms()
        combo = Chem.RWMol(Chem.CombineMols(core, sm))
        combo.AddBond(i, off, Chem.BondType.SINGLE)
        try:
            mm = combo.GetMol()
            Chem.SanitizeMol(mm)
            core = Chem.RWMol(mm)
        except Exception:
            continue
    return Chem.MolToSmiles(core)


@st.composite
def radical(draw, max_heavy=9):
    base = draw(st.one_of(gas(max_heavy, stereo=False), gas(max_heavy, stereo=False), aromatic(3)))
    mol = Chem.MolFromSmiles(base)
    if mol is None:
        return '[CH3]'
    sites = [a.GetIdx() for a in mol.GetAtoms() if a.GetSymbol() in ('C', 'O') and a.GetTotalNumHs() > 0
             and not a.GetIsAromatic()]
    if not sites:
        return '[CH3]'
    i = draw(st.sampled_from(sites))
    k = 2 if (draw(st.integers(0, 9)) == 0 and mol.GetAtomWithIdx(i).GetTotalNumHs() >= 2) else 1
    rw = Chem.RWMol(mol)
    a = rw.GetAtomWithIdx(i)
    h = a.GetTotalNumHs()
    a.SetNoImplicit(True)
    a.SetNumExplicitHs(h - k)
    a.SetNumRadicalElectrons(k)
    try:
        m2 = rw.GetMol()
        Chem.SanitizeMol(m2)
        return Chem.MolToSmiles(m2)
    except Exception:
        return '[CH3]'


@st.composite
def adsorbate(draw, metal='Pt', max_heavy=6, extra=True):
    g = draw(skeleton(max_heavy, rings=draw(st.integers(0, 4)) == 0))
    sites = []
    nb = draw(st.integers(1, 4))
    for _ in range(nb):
        cand = [i for i in range(len(g.el)) if g.free[i] - sites.count(i) > 0]
        if not cand:
            break
        # bind preferentially atoms that already bind (multi-dentate carbons)
        i = draw(st.sampled_from(cand + [s for s in sites if s in cand]))
        sites.append(i)
    try:
        mol = g.to_mol(metal=metal, metal_sites=sites)
    except Exception:
        return 'C[%s]' % metal
    return Chem.MolToSmiles(mol)


@st.composite
def alkene(draw):
    """alkenes with explicit cis/trans marks, incl. long chains (atom indices >= 9 and >= 17 on the double bond's
    neighbours), di-/tri-substituted, dienes"""
    def chain(n):
        s = 'C' * n
        if n >= 3 and draw(st.integers(0, 3)) == 0:
            k = draw(st.integers(1, n - 1))
            s = s[:k] + '(C)' + s[k:]
        if draw(st.integers(0, 5)) == 0:
            s = s + 'O'
        return s
    a, b = draw(st.sampled_from([1, 1, 2, 3, 5, 8, 12, 17])), draw(st.sampled_from([1, 1, 2, 4, 7, 9, 16]))
    m1, m2 = draw(st.sampled_from(['/', '\\', ''])), draw(st.sampled_from(['/', '\\', '']))
    left, right = chain(a), chain(b)
    kind = draw(st.sampled_from(['di', 'di', 'tri', 'diene', 'ring', 'tetra', 'tetra']))
    if kind == 'tetra':
        # both ends carry two different substituents: which pair RDKit names as the stereo atoms (the higher-priority ones)
        # and which pair a pattern happens to match are independent choices
        subs = ['C', 'CC', 'O', 'OC', 'C(C)C', 'CCC', 'C(C)(C)C', 'C=C', '[CH2]']
        x1, x2 = draw(st.sampled_from(subs)), draw(st.sampled_from(subs))
        m3, m4 = draw(st.sampled_from(['/', '\\'])), draw(st.sampled_from(['/', '\\']))
        smi = '%s%sC(%s)=C(%s%s)%s' % (left, m3, x1, m4, x2, right)
    elif kind == 'di':
        smi = '%s%sC=C%s%s' % (left, m1, m2, right)
    elif kind == 'tri':
        smi = '%s%sC(C)=C%s%s' % (left, m1, m2, right)
    elif kind == 'diene':
        smi = '%s%sC=C%sC=C%s%s' % (left, m1, m2, m1, right)
    else:
        smi = '%s%sC=C%sC1CCCC1' % (left, m1, m2)
    mol = Chem.MolFromSmiles(smi)
    if mol is None:
        return 'C/C=C\\C'
    if draw(st.booleans()):
        return smi                      # as written (non-canonical atom order: the double bond sits at high indices)
    return Chem.MolToSmiles(mol)


SPECIAL = ['[H][H]', '[HH]', 'O', 'C', 'O=C=O', '[C-]#[O+]', 'C=O', 'CO', 'OO', 'O=O', '[H]', '[OH]', '[CH3]', '[CH2]',
           'C#C', 'C=C', 'C=C=C', 'C=C=C=C', 'CC(C)(C)C', 'CC(C)C(C)C', 'CC(C)(C)C(C)(C)C', 'C1CC1', 'C1CCC1', 'C1CCCCC1',
           'C1CC2CC1C2', 'C1CCC2(C1)CCC2', 'OC(=O)C', 'COC(=O)C', 'CC(=O)C', 'CC=O', 'OCCO', 'C1CO1', 'COC', 'COOC',
           'C1=CC=CCC1', 'C1=CCC=CC1', 'OC1C=CC=CC1', 'CC1=CC=CCC1', 'C1=CCCC=C1', 'C1=CC=CC=C1', 'CC1C=CC=CC1C', 'C1=CC=CC1', 'C1=CCCCC1',
           'O=C1C=CC=CC1', 'C1=COC=CC1', 'C=C1C=CC=CC1', 'O=C=O', 'C1=CC=C(C)CC1',
           'C[C]=CC', 'CC=[C]C', 'C[C]=C(C)C', 'CC[C]=CC', '[CH]=CC', 'C=[C]C', 'C[C]=C', 'CC(C)=[C]C', 'C[C]=CC=C',
           'Cc1ccccc1C', 'CCc1ccccc1C', 'Cc1ccc(C)c(C)c1', 'Oc1ccccc1C', 'Cc1cccc(C)c1C', 'COc1ccccc1C', 'Cc1ccccc1-c1ccccc1']
OOV = ['CN', 'CS', 'CCl', 'CF', 'CB', 'C[N+](C)(C)C', 'CC(=O)[O-]', '[NH4+]', 'c1ccncc1', 'CS(=O)C', 'N#N', 'CC#N',
       '[Pt]', '[Ru]', '[Na+].[Cl-]', 'C[Si](C)(C)C', 'OP(O)(O)=O', 'ClC(Cl)Cl', 'NC(=O)C', 'C[N+](=O)[O-]', '[Au]C']


IONS = ['[CH3+]', 'C[CH2+]', 'C[O-]', 'CC(=O)[O-]', 'C[NH3+]', '[OH-]', '[CH2-]C', 'C[C+](C)C', '[O-]CC[O-]', 'C=[OH+]', 'C[OH2+]',
        'C[CH+]C', '[CH2-]C=C', 'C[O+](C)C', '[O-]C(=O)C[CH2+]', 'C[CH-]C', 'OC[CH2+]', '[CH2+]C[Pt]', 'C[C+]=O']
POLYCYCLIC = ['C1CCC2CCCC2C1', 'C1CC2CCCC12', 'C1CC12CCC2', 'C1CC2CCC12', 'C1CCC2(C1)CCCCC2', 'C1CC2CC1CCC2', 'C1CC2CCC1C2', 'C1CCC2CC2C1',
              'C1CC2OC2C1', 'C1=CC2CCCC2C1', 'C1CCC2CCCCC2C1', 'C12CC1C2', 'C1CC2CC3CC1C23', 'OC1CC2CCC1C2', 'C1COC2CCCC2C1', 'c1ccc2CCCc2c1',
              'C1CC2CCC1[CH]2', '[Pt]C1CC2CCCC12', 'C12CC(C1)C2', 'C1CC2CCC1CC2', 'C12C3C4C1C5C2C3C45', 'C1C2CC3CC1CC(C2)C3', 'C1C2CC1C2',
              'C12CC(C1)(C2)C', 'OC12CC(C1)C2', 'C1CC2(C1)CC2',
              # three and more rings: an atom in two rings plus a ring elsewhere (the ring list interleaves them for some atom orders)
              'C1CC12CC2C1CCC1', 'C1CC12CC2CC1CC1', 'C1CC2CC2CC1C1CC1', 'C1CC1C1CC12CC2', 'C1CCC1C1CC2CC2C1', 'C1CC1CC1CC12CCC2', 'C1CC1C1CC2(CC2)C1',
              'C1CC1C1CC1', 'C1CC1C1CCC1', 'c1ccccc1C1CC1', 'C1CC1C1CC1C1CC1']


# molecules whose groups are remap KEYS of the shipped schemes (methyl on sp2/sp/aromatic/carbonyl carbon, on N and O, next to a
# radical; hydroxyl on sp2/sp/aromatic carbon; formic/vinyl/enol fragments; acids on a surface; conjugated aldehydes): the
# remap table is applied to whatever the centre assignment produced, in the order the atoms come
REMAPPED = ['CC#C', 'CC#CC', 'CC=C', 'CC(C)=C', 'C/C=C/C', 'Cc1ccccc1', 'CC=O', 'CC(C)=O', 'CN', 'CNC', 'CO', 'COC', 'C[CH2]', 'C[CH]C', 'OC=C', 'Oc1ccccc1',
            'OC#C', 'OC=O', 'CC(=O)C=C', 'CC(O)=C', 'C=C(O)C=C', 'OCC(C)=O', 'CC(=O)CO', '[H][H]', 'C', 'C=CC=O', 'CC=CC=O', 'OC(=O)C', 'CC(=O)O',
            'CC#CC=C', 'CC(=O)C#C', 'COC=C', 'COc1ccccc1']
REMAPPED_SURFACE = ['OC(=O)[{M}]', 'C(=O)([{M}])O', 'OC(=O)C[{M}]', 'C=CC(=O)[{M}]', '[{M}]C=CC=O', 'C~[{M}]', 'CC(=O)[{M}]', 'COC[{M}]', 'CC(O[{M}])=C']


def remapped(metal=None):
    return st.sampled_from(REMAPPED + ([x.replace('{M}', metal) for x in REMAPPED_SURFACE] if metal else []))


def special():
    return st.sampled_from(SPECIAL)


def ions():
    return st.sampled_from(IONS)


def polycyclic():
    return st.sampled_from(POLYCYCLIC)


def oov():
    return st.sampled_from(OOV)


@st.composite
def large(draw, metal='Pt'):
    """30-75 heavy atoms: long (branched) chains with one distinguished end - patterns get thousands of raw embeddings, and
    the distinguished atom can be first or last in the atom order"""
    k = draw(st.integers(24, 70))
    head = draw(st.sampled_from(['[CH2]', '[CH2]', 'O', 'OC(=O)', 'C=C', 'C(=O)', 'C[CH]', 'C#C', '[O]', 'c1ccccc1', 'C1CC1'] +
                                (['[%s]' % metal, '[%s]C([%s])' % (metal, metal)] if metal else [])))
    chain = ['C'] * k
    for _ in range(draw(st.integers(0, 3))):
        chain[draw(st.integers(1, k - 2))] = draw(st.sampled_from(['C(C)', 'C(C)(C)', 'C(CC)']))
    if draw(st.integers(0, 5)) == 0:
        return 'CC(C)(C)' * draw(st.integers(6, 12)) + draw(st.sampled_from(['C', '[CH2]', 'O']))
    smi = head + ''.join(chain) if draw(st.booleans()) else ''.join(chain) + (head if not head.startswith('OC') else 'C(=O)O')
    return smi if Chem.MolFromSmiles(smi) is not None else '[CH2]' + 'C' * k


_WITNESS = {}


def witness_pool(metal):
    """molecules built from the patterns of the shipped scheme files themselves (vlib.witness): every correction
    descriptor and centre pattern of the scheme gets a candidate molecule"""
    if metal not in _WITNESS:
        import os
        from vlib import schemeref, shipped, witness
        libs = ['BensonGA'] if metal is None else (['XieGA2022'] if metal == 'Ru' else ['GRWSurface2018', 'SalciccioliGA2012'])
        out = []
        for L in libs:
            ref = schemeref.SchemeRef(os.path.join(shipped.data_dir(), L, 'scheme.yaml'))
            for frag in [f for _, _, f in ref.patterns] + [f for _, f in ref.desc]:
                for smi in witness.witnesses(frag, metal):
                    if smi not in out and Chem.MolFromSmiles(smi) is not None:
                        out.append(smi)
        _WITNESS[metal] = out
    return _WITNESS[metal]


def witness(metal='Pt'):
    return st.sampled_from(witness_pool(None) + (witness_pool(metal) if metal else []))


def family(name, metal='Pt', max_heavy=12):
    if name == 'witness':
        return witness(metal)
    if name == 'witness-gas':
        return witness(None)
    if name == 'remapped':
        return remapped(metal)
    if name == 'remapped-gas':
        return remapped(None)
    if name == 'large':
        return large(metal)
    if name == 'large-gas':
        return large(None)
    return {
        'gas': gas(max_heavy),
        'alkene': alkene(),
        'aromatic': aromatic(),
        'radical': radical(),
        'adsorbate': adsorbate(metal),
        'special': special(),
        'ions': ions(),
        'polycyclic': polycyclic(),
        'oov': oov(),
    }[name]


def mixed(weights, metal='Pt', max_heavy=12):
    """weights: dict family -> int weight"""
    opts = []
    for k, w in weights.items():
        opts += [family(k, metal, max_heavy)] * w
    return st.one_of(*opts)


# ---- equivalent spellings ----------------------------------------------------------------------------
def spellings(smi, n_random, seed):
    """equivalent spellings of one molecule produced by RDKit from ONE parsed molecule; returns list of (kind, smiles)"""
    import random
    mol = Chem.MolFromSmiles(smi)
    if mol is None:
        return []
    canon = Chem.MolToSmiles(mol)
    out = [('canonical', canon)]
    rnd = random.Random(seed)
    n = mol.GetNumAtoms()
    for k in range(min(n, 6)):
        try:
            out.append(('rooted', Chem.MolToSmiles(mol, rootedAtAtom=rnd.randrange(n), canonical=False)))
        except Exception:
            pass
    for k in range(n_random):
        perm = list(range(n))
        rnd.shuffle(perm)
        m2 = Chem.RenumberAtoms(mol, perm)
        out.append(('renumbered', Chem.MolToSmiles(m2, canonical=False)))
    try:
        out.append(('explicit-H', Chem.MolToSmiles(Chem.AddHs(mol), allHsExplicit=True)))
        out.append(('bracket-H', Chem.MolToSmiles(mol, allHsExplicit=True)))      # [CH3][CH2][OH]: hydrogen counts inside the brackets
        mh = Chem.AddHs(mol)
        perm = list(range(mh.GetNumAtoms()))
        rnd.shuffle(perm)
        out.append(('explicit-H-renumbered', Chem.MolToSmiles(Chem.RenumberAtoms(mh, perm), canonical=False)))
    except Exception:
        pass
    try:
        km = Chem.Mol(mol)
        Chem.Kekulize(km, clearAromaticFlags=True)
        out.append(('kekule', Chem.MolToSmiles(km, kekuleSmiles=True)))
    except Exception:
        pass
    # keep only spellings RDKit itself reads back to the same canonical molecule
    good = []
    for kind, s in out:
        m3 = Chem.MolFromSmiles(s)
        if m3 is not None and Chem.MolToSmiles(m3) == canon:
            good.append((kind, s))
    return good


def has_fused_aromatic(smi):
    """class predicate of the known aromaticity-perception ambiguity: an RDKit-aromatic ring that shares a bond with
    another ring (naphthalene-type systems, and any ring fused onto an aromatic ring).  For these the Kekule form - and
    with it the Benson perception and every bond-order-dependent pattern - depends on the atom order / call sequence."""
    mol = Chem.MolFromSmiles(smi)
    if mol is None:
        return False
    ri = mol.GetRingInfo()
    rings = [set(r) for r in ri.AtomRings()]
    arom = [all(mol.GetAtomWithIdx(i).GetIsAromatic() for i in r) for r in rings]
    for (a, fa), (b, fb) in itertools.combinations(list(zip(rings, arom)), 2):
        if len(a & b) >= 2 and (fa or fb):
            return True
    return False


# ---- bounded exhaustive small molecules ---------------------------------------------------------------------
_small_cache = {}


def enumerate_small(max_heavy=3, elements=('C', 'O'), metal=None, radicals=True):
    """every connected molecule on <= max_heavy heavy atoms over `elements` with bond orders 1-3 and optional three-ring,
    each also with one radical site (one H removed) and, if `metal` is given, with 1-3 hydrogens of one atom replaced by
    bonds to metal atoms.  Returns sorted canonical SMILES."""
    key = (max_heavy, tuple(elements), metal, radicals)
    if key in _small_cache:
        return _small_cache[key]
    from rdkit import RDLogger
    RDLogger.DisableLog('rdApp.*')          # most candidate graphs violate a valence; that is what the sanitiser is for
    order = {1: Chem.BondType.SINGLE, 2: Chem.BondType.DOUBLE, 3: Chem.BondType.TRIPLE}
    base = set()

    def add(els, bonds):
        m = Chem.RWMol()
        for e in els:
            m.AddAtom(Chem.Atom(e))
        for a, b, o in bonds:
            m.AddBond(a, b, order[o])
        try:
            mol = m.GetMol()
            Chem.SanitizeMol(mol)
            base.add(Chem.MolToSmiles(mol))
        except Exception:
            pass
    for e1 in elements:
        add([e1], [])
        if max_heavy >= 2:
            for e2 in elements:
                for o in (1, 2, 3):
                    add([e1, e2], [(0, 1, o)])
                if max_heavy >= 3:
                    for e3 in elements:
                        for o1 in (1, 2, 3):
                            for o2 in (1, 2, 3):
                                add([e1, e2, e3], [(0, 1, o1), (1, 2, o2)])
                        add([e1, e2, e3], [(0, 1, 1), (1, 2, 1), (0, 2, 1)])
                        add([e1, e2, e3], [(0, 1, 2), (1, 2, 1), (0, 2, 1)])
                        if max_heavy >= 4:
                            for e4 in elements[:2]:
                                add([e1, e2, e3, e4], [(0, 1, 1), (1, 2, 1), (1, 3, 1)])
                                add([e1, e2, e3, e4], [(0, 1, 1), (1, 2, 1), (2, 3, 1)])
                                add([e1, e2, e3, e4], [(0, 1, 2), (1, 2, 1), (2, 3, 2)])
                                add([e1, e2, e3, e4], [(0, 1, 1), (1, 2, 2), (2, 3, 1)])
                                add([e1, e2, e3, e4], [(0, 1, 1), (1, 2, 1), (2, 3, 1), (0, 3, 1)])
    out = set(base)
    for smi in sorted(base):
        mol = Chem.MolFromSmiles(smi)
        for a in mol.GetAtoms():
            h = a.GetTotalNumHs()
            if h == 0:
                continue
            if radicals:
                rw = Chem.RWMol(mol)
                x = rw.GetAtomWithIdx(a.GetIdx())
                x.SetNoImplicit(True)
                x.SetNumExplicitHs(h - 1)
                x.SetNumRadicalElectrons(1)
                try:
                    m2 = rw.GetMol()
                    Chem.SanitizeMol(m2)
                    out.add(Chem.MolToSmiles(m2))
                except Exception:
                    pass
            if metal:
                for k in range(1, min(h, 3) + 1):
                    rw = Chem.RWMol(mol)
                    for _ in range(k):
                        j = rw.AddAtom(Chem.Atom(metal))
                        rw.AddBond(a.GetIdx(), j, Chem.BondType.SINGLE)
                    try:
                        m2 = rw.GetMol()
                        Chem.SanitizeMol(m2)
                        out.add(Chem.MolToSmiles(m2))
                    except Exception:
                        pass
    _small_cache[key] = sorted(out)
    return _small_cache[key]
