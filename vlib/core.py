"""Runner plumbing shared by every property check.

A property module (props/Cxx.py) exposes

    PROPERTY   = 'Cxx'
    RULE       = '<how cases are generated and what makes one non-trivial>'
    FAMILIES   = [Family(...), ...]
    ASSUMPTIONS = [...]

A Family is one generated-input domain with its oracle.  ``check(ctx, case)``
evaluates the oracle on one JSON-serialisable case; it records what it saw via
``ctx.case(...)`` / ``ctx.event(...)`` and reports oracle failures via
``ctx.fail(bucket, msg)`` (collecting mode: the search continues).  Any
exception escaping ``check`` is a harness error (exit 2), never a VIOLATION.
"""
import collections
import hashlib
import json
import os
import random
import sys
import time
import traceback

HERE = os.path.dirname(os.path.dirname(os.path.abspath(__file__)))
REPO = os.environ.get('VERIF_REPO', '/repo')


def setup_imports():
    """Make sure the pgradd that gets imported is the working tree under REPO."""
    if REPO not in sys.path:
        sys.path.insert(0, REPO)
    deps = os.path.join(HERE, '.deps')
    if os.path.isdir(deps) and deps not in sys.path:
        sys.path.append(deps)
    import pgradd
    real = os.path.realpath(pgradd.__file__)
    if not real.startswith(os.path.realpath(REPO) + os.sep):
        raise RuntimeError('pgradd imported from %s, not from %s' % (real, REPO))
    silence()


def silence():
    try:
        from rdkit import RDLogger
        RDLogger.DisableLog('rdApp.*')
    except Exception:
        pass
    try:
        import pgradd.Units.qty as q
        q.print = lambda *a, **k: None
    except Exception:
        pass
    import warnings
    warnings.filterwarnings('ignore', category=DeprecationWarning)


class Family(object):
    """One generated-input domain with its oracle.

    strategy(tier) -> hypothesis strategy of JSON-able cases   (random families)
    enumerate(tier) -> iterable of JSON-able cases             (exhaustive families)
    check(ctx, case) -> None
    n = (quick, thorough): number of Hypothesis examples (total over shards)
    """

    def __init__(self, name, check, strategy=None, enumerate=None, n=(100, 1000),
                 stride=(1, 1), setup=None, sharded=True, stateful=None):
        self.name = name
        self.check = check
        self.strategy = strategy
        self.enumerate = enumerate
        self.n = n
        self.stride = stride
        self.setup = setup
        self.sharded = sharded
        self.stateful = stateful


def digest(obj):
    s = json.dumps(obj, sort_keys=True, default=repr)
    return hashlib.blake2b(s.encode('utf8', 'replace'), digest_size=8).digest()


class Ctx(object):
    MAX_SAMPLES = 4

    def __init__(self, prop, tier, seed, shard=0, nshards=1):
        self.prop = prop
        self.tier = tier
        self.seed = seed
        self.shard = shard
        self.nshards = nshards
        self.evaluations = 0
        self.nontrivial = set()
        self.events = collections.Counter()
        self.samples = collections.defaultdict(list)
        self.failures = {}
        self.family = None
        self.cur = None
        self.collect = True
        self.seen_buckets = None
        self.notes = {}

    # -- recording -------------------------------------------------------
    def begin(self, family, case):
        self.family = family
        self.cur = case
        self.seen_buckets = set()

    def case(self, nontrivial, key=None, sample=None, evals=1):
        """Register one oracle evaluation of the current case."""
        self.evaluations += evals
        self.events['%s:cases' % self.family] += 1
        if nontrivial:
            self.events['%s:nontrivial' % self.family] += 1
            self.nontrivial.add(digest([self.family, key if key is not None else self.cur]))
            ss = self.samples[self.family]
            if len(ss) < self.MAX_SAMPLES:
                ss.append(sample if sample is not None else self.cur)

    def count(self, n=1):
        self.evaluations += n

    def event(self, label, n=1):
        self.events[label] += n

    def fail(self, bucket, msg, case=None):
        bucket = '%s:%s' % (self.prop, bucket)
        if self.seen_buckets is not None:
            self.seen_buckets.add(bucket)
        case = self.cur if case is None else case
        size = len(json.dumps(case, default=repr))
        f = self.failures.get(bucket)
        if f is None:
            self.failures[bucket] = dict(count=1, family=self.family, case=case,
                                         msg=str(msg)[:2000], size=size)
        else:
            f['count'] += 1
            if size < f['size']:
                f.update(family=self.family, case=case, msg=str(msg)[:2000], size=size)

    # -- seeds -----------------------------------------------------------
    def hseed(self, label):
        h = hashlib.blake2b(('%d/%d/%s' % (self.seed, self.shard, label)).encode(), digest_size=6)
        return int.from_bytes(h.digest(), 'big')

    # -- merging ---------------------------------------------------------
    def export(self):
        return dict(evaluations=self.evaluations, nontrivial=self.nontrivial,
                    events=dict(self.events), samples=dict(self.samples),
                    failures=self.failures, notes=self.notes)

    def merge(self, d):
        self.evaluations += d['evaluations']
        self.nontrivial |= d['nontrivial']
        for k, v in d['events'].items():
            self.events[k] += v
        for k, v in d['samples'].items():
            ss = self.samples[k]
            for s in v:
                if len(ss) < self.MAX_SAMPLES and s not in ss:
                    ss.append(s)
        for b, f in d['failures'].items():
            g = self.failures.get(b)
            if g is None:
                self.failures[b] = dict(f)
            else:
                g['count'] += f['count']
                if f['size'] < g['size']:
                    c = g['count']
                    g.update(f)
                    g['count'] = c
        for k, v in d['notes'].items():
            if isinstance(v, (int, float)) and isinstance(self.notes.get(k), (int, float)):
                self.notes[k] += v
            else:
                self.notes.setdefault(k, v)


def guarded(ctx, fam, case):
    """Run one oracle.  An exception that comes out of a call INTO the subject package (the first frame below the last
    harness frame is a pgradd one) where the oracle expected the call to return is a finding about the subject - every
    oracle catches the exceptions its property allows - and is bucketed as such; anything else is a harness error."""
    try:
        fam.check(ctx, case)
    except Exception as e:
        tb = traceback.extract_tb(e.__traceback__)
        last_h = max([i for i, fr in enumerate(tb) if fr.filename.startswith(HERE + os.sep)] or [-1])
        below = tb[last_h + 1:]
        if last_h < 0 or not below or (os.sep + 'pgradd' + os.sep) not in below[0].filename:
            raise
        inner = [fr for fr in below if (os.sep + 'pgradd' + os.sep) in fr.filename][-1]
        ctx.fail('subject-raised:%s:%s:%s' % (type(e).__name__, os.path.basename(inner.filename), inner.name),
                 'a call the oracle of family %s expected to return raised %s: %s (at %s:%d %s; called from %s:%d)'
                 % (fam.name, type(e).__name__, str(e)[:200], inner.filename.split(os.sep + 'pgradd' + os.sep)[-1], inner.lineno,
                    inner.name, os.path.basename(tb[last_h].filename), tb[last_h].lineno))


def run_family(ctx, fam, share):
    """Run one family inside one shard.  share = (index, nshards)."""
    idx, nsh = share
    if fam.setup is not None:
        fam.setup(ctx)
    ti = 0 if ctx.tier == 'quick' else 1
    if fam.stateful is not None:
        if fam.n[ti] > 0:
            fam.stateful(ctx, fam, max(1, fam.n[ti] // nsh))
        return
    if fam.enumerate is not None:
        stride = fam.stride[ti]
        off = ctx.seed % stride if stride > 1 else 0
        k = 0
        for i, case in enumerate(fam.enumerate(ctx.tier)):
            if stride > 1 and i % stride != off:
                continue
            if k % nsh == idx:
                ctx.begin(fam.name, case)
                guarded(ctx, fam, case)
            k += 1
        ctx.notes.setdefault('exhaustive:%s' % fam.name, stride == 1)
    if fam.strategy is not None:
        n = fam.n[ti]
        n = n // nsh + (1 if idx < n % nsh else 0)
        if n <= 0:
            return
        hyp_run(ctx, fam, n)


def hyp_settings(n, shrink=False):
    from hypothesis import settings, HealthCheck, Phase
    phases = [Phase.generate, Phase.shrink] if shrink else [Phase.generate]
    return settings(max_examples=n, database=None, deadline=None, derandomize=False,
                    report_multiple_bugs=False, phases=phases,
                    suppress_health_check=[HealthCheck.too_slow, HealthCheck.data_too_large,
                                           HealthCheck.large_base_example],
                    print_blob=False)


def hyp_run(ctx, fam, n):
    from hypothesis import given, seed
    strat = fam.strategy(ctx.tier)

    @seed(ctx.hseed(fam.name))
    @hyp_settings(n)
    @given(strat)
    def body(case):
        ctx.begin(fam.name, case)
        try:
            guarded(ctx, fam, case)
        except BaseException:
            # keep the real traceback: Hypothesis may replace it by a FlakyFailure wrapper
            sys.stderr.write('HARNESS-EXCEPTION in %s case %r:\n%s\n' % (fam.name, case, traceback.format_exc()))
            raise

    body()


# ---------------------------------------------------------------------------
# shrinking

def shrink_bucket(mod, fam, bucket, fallback, tier, seed, budget_s=25.0):
    """Find a minimal member of `bucket` by re-running the family's strategy with
    'falls in this bucket' as the failing condition.  Time-capped: once the
    budget is used the condition answers False, which makes the shrinker stop."""
    if fam.strategy is None:
        return fallback
    from hypothesis import find
    from hypothesis.errors import NoSuchExample
    t0 = time.time()
    best = [fallback]

    def cond(case):
        if time.time() - t0 > budget_s:
            return False
        c = Ctx(mod.PROPERTY, tier, seed)
        c.begin(fam.name, case)
        try:
            fam.check(c, case)
        except Exception:
            return False
        hit = bucket in c.failures
        if hit:
            best[0] = case
        return hit

    try:
        if fam.setup is not None:
            fam.setup(Ctx(mod.PROPERTY, tier, seed))
        found = find(fam.strategy(tier), cond, settings=hyp_settings(400, shrink=True),
                     random=random.Random(seed))
        return found
    except NoSuchExample:
        return best[0]
    except Exception:
        return best[0]


# ---------------------------------------------------------------------------
# known findings

def load_known():
    p = os.path.join(HERE, 'known_findings.json')
    if not os.path.exists(p):
        return []
    with open(p) as f:
        return json.load(f).get('findings', [])


def match_known(known, prop, bucket):
    import fnmatch
    for k in known:
        if k.get('property') != prop or k.get('status') != 'known':
            continue
        if fnmatch.fnmatchcase(bucket, k['key']):
            return k
    return None


def slug(s):
    return ''.join(ch if ch.isalnum() or ch in '-_.' else '_' for ch in s)[:100]


# ---------------------------------------------------------------------------
# top level

def _shard_main(args):
    modname, tier, seed, idx, nsh, only = args
    try:
        os.environ.setdefault('PYTHONHASHSEED', '0')
        setup_imports()
        import importlib
        mod = importlib.import_module('props.' + modname)
        ctx = Ctx(mod.PROPERTY, tier, seed, idx, nsh)
        for fam in mod.FAMILIES:
            if only and fam.name not in only:
                continue
            if not fam.sharded:
                if idx == 0:
                    run_family(ctx, fam, (0, 1))
            else:
                run_family(ctx, fam, (idx, nsh))
        return ('ok', ctx.export())
    except BaseException:
        return ('err', traceback.format_exc())


def run_regress(mod, ctx, only=None):
    """Replay tier: every saved input under regress/<id>/ goes through its family's oracle on every run."""
    import glob
    fams = {f.name: f for f in mod.FAMILIES}
    done = set()
    for path in sorted(glob.glob(os.path.join(HERE, 'regress', mod.PROPERTY, '*.json'))):
        with open(path) as fh:
            r = json.load(fh)
        fam = fams.get(r['family'])
        if fam is None or (only and fam.name not in only):
            continue
        if fam.setup is not None and fam.name not in done:
            fam.setup(ctx)
            done.add(fam.name)
        ctx.begin(fam.name, r['case'])
        guarded(ctx, fam, r['case'])
        ctx.event('regress:replayed')


def write_evidence(mod, ctx, tier, seed, wall, nviol, extra=None):
    cov = dict(
        evaluations=int(ctx.evaluations),
        distinct_nontrivial=len(ctx.nontrivial),
        rule=mod.RULE,
        samples=[dict(family=k, case=s) for k, v in sorted(ctx.samples.items()) for s in v][:24],
        histogram=dict(sorted(ctx.events.items())),
        buckets={b: dict(count=f['count'], family=f['family'], msg=f['msg'][:300])
                 for b, f in sorted(ctx.failures.items())},
        notes=ctx.notes,
        exhaustive=False,
    )
    if extra:
        cov.update(extra)
    ev = dict(property_id=mod.PROPERTY, tier=tier, seed=int(seed), level='exploration',
              coverage=cov, assumptions=list(getattr(mod, 'ASSUMPTIONS', [])),
              wall_s=round(wall, 2), violations=int(nviol))
    d = os.path.join(HERE, 'evidence')
    os.makedirs(d, exist_ok=True)
    tmp = os.path.join(d, '.%s.json.tmp' % mod.PROPERTY)
    with open(tmp, 'w') as f:
        json.dump(ev, f, indent=1, default=repr, sort_keys=True)
    os.replace(tmp, os.path.join(d, '%s.json' % mod.PROPERTY))


def run_check(modname, tier, seed, only=None, nshards=None, do_shrink=True):
    import importlib
    t0 = time.time()
    setup_imports()
    mod = importlib.import_module('props.' + modname)
    nsh = nshards or int(os.environ.get('VERIF_SHARDS', '16'))
    nsh = getattr(mod, 'SHARDS', {}).get(tier, nsh)
    ctx = Ctx(mod.PROPERTY, tier, seed)
    if nsh <= 1:
        st, res = _shard_main((modname, tier, seed, 0, 1, only))
        results = [(st, res)]
    else:
        import multiprocessing as mp
        mpctx = mp.get_context('fork')
        with mpctx.Pool(nsh) as pool:
            results = pool.map(_shard_main, [(modname, tier, seed, i, nsh, only) for i in range(nsh)],
                               chunksize=1)
    for st, res in results:
        if st != 'ok':
            sys.stderr.write('HARNESS-ERROR in shard:\n%s\n' % res)
            return 2
        ctx.merge(res)
    run_regress(mod, ctx, only)
    if hasattr(mod, 'finalize'):
        mod.finalize(ctx)
    known = load_known()
    fams = {f.name: f for f in mod.FAMILIES}
    nviol = 0
    printed_known = set()
    lines = []
    for bucket, f in sorted(ctx.failures.items()):
        k = match_known(known, mod.PROPERTY, bucket)
        if k is not None:
            if k['key'] not in printed_known:
                printed_known.add(k['key'])
                lines.append('KNOWN-FINDING: property=%s %s [%s; %d cases this run]'
                             % (mod.PROPERTY, k['what'], k['key'], f['count']))
            else:
                pass
            continue
        nviol += 1
        case = f['case']
        fam = fams.get(f['family'])
        if do_shrink and fam is not None:
            case = shrink_bucket(mod, fam, bucket, case, tier, seed,
                                 budget_s=20.0 if tier == 'quick' else 120.0)
        # message for the (possibly smaller) case
        c2 = Ctx(mod.PROPERTY, tier, seed)
        c2.begin(f['family'], case)
        msg = f['msg']
        try:
            if fam is not None:
                if fam.setup is not None:
                    fam.setup(c2)
                fam.check(c2, case)
                if bucket in c2.failures:
                    msg = c2.failures[bucket]['msg']
        except Exception:
            pass
        os.makedirs(os.path.join(HERE, 'replays'), exist_ok=True)
        rp = os.path.join('replays', '%s.json' % slug(bucket))
        with open(os.path.join(HERE, rp), 'w') as fh:
            json.dump(dict(property=mod.PROPERTY, bucket=bucket, family=f['family'], case=case,
                           msg=msg, count=f['count'], seed=seed, tier=tier), fh, indent=1, default=repr)
        lines.append('VIOLATION property=%s replay=%s' % (mod.PROPERTY, rp))
        lines.append('  bucket=%s count=%d msg=%s' % (bucket, f['count'], msg[:400].replace('\n', ' | ')))
    wall = time.time() - t0
    write_evidence(mod, ctx, tier, seed, wall, nviol)
    for l in lines:
        print(l)
    print('%s tier=%s seed=%d evaluations=%d distinct_nontrivial=%d buckets=%d violations=%d wall=%.1fs'
          % (mod.PROPERTY, tier, seed, ctx.evaluations, len(ctx.nontrivial), len(ctx.failures), nviol, wall))
    if ctx.evaluations < 1 or len(ctx.nontrivial) < 2:
        sys.stderr.write('HARNESS-ERROR: vacuous run (evaluations=%d, nontrivial=%d)\n'
                         % (ctx.evaluations, len(ctx.nontrivial)))
        return 2
    return 1 if nviol else 0


def replay(modname, path):
    import importlib
    setup_imports()
    mod = importlib.import_module('props.' + modname)
    with open(path) as f:
        r = json.load(f)
    fams = {f.name: f for f in mod.FAMILIES}
    fam = fams[r['family']]
    ctx = Ctx(mod.PROPERTY, 'quick', int(r.get('seed', 1)))
    if fam.setup is not None:
        fam.setup(ctx)
    ctx.begin(fam.name, r['case'])
    guarded(ctx, fam, r['case'])
    known = load_known()
    rc = 0
    for bucket, f in sorted(ctx.failures.items()):
        k = match_known(known, mod.PROPERTY, bucket)
        if k is not None:
            print('KNOWN-FINDING: property=%s %s [%s]' % (mod.PROPERTY, k['what'], k['key']))
            continue
        print('VIOLATION property=%s replay=%s' % (mod.PROPERTY, path))
        print('  bucket=%s msg=%s' % (bucket, f['msg'][:600].replace('\n', ' | ')))
        rc = 1
    if not ctx.failures:
        print('replay %s: property held (no failure reproduced)' % path)
    return rc
