"""Reference numerics for the thermochemistry checks: composite Gauss-Legendre quadrature
(independent of scipy.integrate.quad and of the spline's own integral) and fsum combinations."""
import math

import numpy as np

_X, _W = np.polynomial.legendre.leggauss(24)


def _gl(f, a, b):
    h = 0.5 * (b - a)
    c = 0.5 * (b + a)
    return h * math.fsum(w * f(c + h * x) for x, w in zip(_X, _W))


def _pieces(a, b, breaks, ratio=1.5):
    """sub-intervals of [a,b] (a<b) cut at break points and so that hi/lo <= ratio"""
    pts = sorted(set([a, b] + [x for x in breaks if a < x < b]))
    out = []
    for lo, hi in zip(pts[:-1], pts[1:]):
        if lo > 0 and hi / lo > ratio:
            n = int(math.ceil(math.log(hi / lo) / math.log(ratio)))
            g = (hi / lo) ** (1.0 / n)
            xs = [lo * g ** k for k in range(n)] + [hi]
            out.extend(zip(xs[:-1], xs[1:]))
        else:
            out.append((lo, hi))
    return out


def integrate(f, a, b, breaks=(), vec=False):
    """signed integral of f from a to b; vec=True: f accepts a numpy array of abscissae"""
    if a == b:
        return 0.0
    sign = 1.0
    if a > b:
        a, b, sign = b, a, -1.0
    pcs = _pieces(a, b, breaks)
    if not vec:
        return sign * math.fsum(_gl(f, lo, hi) for lo, hi in pcs)
    lo = np.array([p[0] for p in pcs])
    hi = np.array([p[1] for p in pcs])
    h = 0.5 * (hi - lo)
    c = 0.5 * (hi + lo)
    nodes = (c[:, None] + h[:, None] * _X[None, :]).ravel()
    vals = np.asarray(f(nodes), dtype=float).reshape(len(pcs), len(_X))
    return sign * math.fsum((h * (vals * _W[None, :]).sum(axis=1)).tolist())


def integrate_abs(f, a, b, breaks=(), vec=False):
    return abs(integrate(lambda t: np.abs(f(t)), a, b, breaks, vec=vec))


def lincomb(terms):
    """fsum of count*value"""
    return math.fsum(c * v for c, v in terms)
