"""Abstract library model -> directory of YAML files in a chosen unit presentation / split.

Abstract group data (all non-dimensional, temperatures in K):
    {'T_ref': float, 'H': float|None, 'S': float|None, 'cp': [[T, cp], ...], 'range': [lo, hi]|None}

The conversion factors come from vlib.unitsref (exact table), the gas constant is the library's documented
one (pgradd.Consts.GAS_CONSTANT = 8.314472 J/(mol K), transcribed here).
"""
import os
import shutil
import tempfile
from fractions import Fraction as F

from vlib import unitsref as U

R_SI = 8.314472          # J/(mol K): value documented in pgradd/Consts.py

_PFX = ['Y', 'Z', 'E', 'P', 'T', 'G', 'M', 'k', 'h', 'da', 'd', 'c', 'm', 'u', 'n', 'p', 'f', 'a', 'z', 'y']
ENERGY_UNITS = ['J/mol', 'kJ/mol', 'cal/mol', 'kcal/mol', 'eV/molecule', 'MJ/kmol', 'kcal/kmol', 'mJ/mmol',
                # negative powers instead of '/', also on prefixed units
                'kJ kmol^-1', 'J mmol^-1', 'kcal kmol^-1', 'J mol^-1'] * 4 + \
    ['%sJ/mol' % p for p in _PFX] + ['%sJ/molecule' % p for p in ('a', 'z', 'f', 'y')] + ['J/%smol' % p for p in ('k', 'm', 'u', 'da')]
ENTROPY_UNITS = ['J/(mol K)', 'J/mol/K', 'cal/(mol*K)', 'kcal/(mol K)', 'kJ/(mol K)', 'eV/molecule/K', 'cal/mol/K',
                 'J mmol^-1 K^-1', 'kJ kmol^-1 K^-1', 'cal mol^-1 K^-1', 'J mol^-1 kK^-1'] * 4 + \
    ['%sJ/(mol K)' % p for p in _PFX] + ['%sJ/(molecule K)' % p for p in ('a', 'z', 'y')] + ['%scal/(mol K)' % p for p in ('k', 'm', 'u', 'h', 'd')]
TEMP_UNITS = ['K', 'mK', 'kK', 'cK', 'dK', 'daK', 'hK']

_factor = {}


def factor(unit):
    """SI magnitude of a unit string from the small fixed vocabulary above"""
    if unit not in _factor:
        import re
        toks = re.findall(r'[A-Za-z]+|\^-?\d+|[()*/]', unit)
        pos = [0]

        def peek():
            return toks[pos[0]] if pos[0] < len(toks) else None

        def take():
            t = toks[pos[0]]
            pos[0] += 1
            return t

        def base():
            t = take()
            if t == '(':
                v = ex()
                assert take() == ')'
                return v
            return U.lookup(t)

        def powered():
            v = base()
            if peek() is not None and peek().startswith('^'):
                v = v.pow(int(take()[1:]))
            return v

        def ex():
            v = powered()
            while peek() is not None and peek() != ')':
                if peek() in '*/':
                    op = take()
                    w = powered()
                    v = v * w if op == '*' else v / w
                else:
                    v = v * powered()
            return v
        _factor[unit] = float(ex().v)
    return _factor[unit]


_STYLE = ['plain']


def num(x):
    """text of a number that YAML reads as a number and the unit grammar reads as a number"""
    x = float(x)
    if _STYLE[0] == 'exponent' and x == x and abs(x) not in (float('inf'),):
        # the same decimal number with an integer mantissa and a power of ten: 0.5 -> 5e-1, 12.25 -> 1225e-2, 300.0 -> 3000e-1
        import decimal
        sign, digits, exp = decimal.Decimal(repr(x)).as_tuple()
        if isinstance(exp, int):
            mant = ''.join(map(str, digits)).lstrip('0') or '0'
            if exp >= 0:
                mant, exp = mant + '0', exp - 1
            return '%s%se%d' % ('-' if sign else '', mant, exp)
    if x == int(x) and abs(x) < 1e15:
        return '%d' % int(x) if abs(x) < 1e6 else repr(x)
    return repr(x)


def present_value(nd, kind, T_ref, how):
    """how = ('nd',) | ('default', unit) | ('explicit', unit) | ('bare',)   -> (key_suffix, text)
    kind in H, S, Cp.  Returns the YAML scalar text for the dimensional or non-dimensional value."""
    if how[0] == 'nd':
        return num(nd)
    unit = how[1] if len(how) > 1 else None
    si = nd * R_SI * (T_ref if kind == 'H' else 1.0)
    if how[0] == 'bare':
        return num(si)
    val = si / factor(unit)
    if how[0] == 'default':
        return num(val)
    return '%s %s' % (num(val), unit)


def present_T(T, how):
    """how = ('default', unit) | ('explicit', unit)"""
    val = T / factor(how[1])
    return num(val) if how[0] == 'default' else '%s %s' % (num(val), how[1])


def render_group(g, pres):
    """pres: {'H': how, 'S': how, 'Cp': how (or list per point), 'T': how, 'order': [...]}; returns YAML lines (indented 8)"""
    _STYLE[0] = pres.get('num') or 'plain'
    try:
        return _render_group(g, pres)
    finally:
        _STYLE[0] = 'plain'


def _render_group(g, pres):
    lines = []
    Th = pres['T']
    if not pres.get('omit_T_ref'):
        lines.append('T_ref: %s' % present_T(g['T_ref'], Th))
    if g.get('H') is not None:
        how = pres['H']
        lines.append('%s: %s' % ('ND_H_ref' if how[0] == 'nd' else 'H_ref', present_value(g['H'], 'H', g['T_ref'], how)))
    if g.get('S') is not None:
        how = pres['S']
        lines.append('%s: %s' % ('ND_S_ref' if how[0] == 'nd' else 'S_ref', present_value(g['S'], 'S', g['T_ref'], how)))
    cp = g.get('cp') or []
    if cp:
        how = pres['Cp']
        lines.append('%s:' % ('ND_Cp_data' if how[0] == 'nd' else 'Cp_data'))
        order = pres.get('order') or list(range(len(cp)))
        for i in order:
            if i < len(cp):
                T, c = cp[i]
                lines.append('    - [%s, %s]' % (present_T(T, Th), present_value(c, 'Cp', g['T_ref'], how)))
    if g.get('range'):
        lines.append('range: [%s, %s]' % (present_T(g['range'][0], Th), present_T(g['range'][1], Th)))
    return lines


SCHEME = """patterns:
- center_name: C
  periph_name: C
  connectivity: 'fragment a{C labeled c1}'
"""


def yaml_key(name):
    return "'%s'" % name.replace("'", "''")


def render_uq(rmse, basis, mat, dof=10):
    """UQ block: RMSE correlation (non-dimensional keys), basis order and matrix as given"""
    out = ['UQ:', '    RMSE:', "        'thermochem':"]
    for l in render_group(rmse, dict(H=('nd',), S=('nd',), Cp=('nd',), T=('explicit', 'K'))):
        out.append('            ' + l)
    out.append('    DOF:')
    out.append('        %d' % dof)
    out.append('    InvCovMat:')
    out.append("        'groups': [%s]" % ', '.join(yaml_key(b) for b in basis))
    out.append("        'mat':")
    out.append('           [' + ',\n            '.join('[' + ','.join((repr(int(x)) if isinstance(x, int) and not isinstance(x, bool) else repr(float(x))) for x in row) + ']' for row in mat) + ']')
    return '\n'.join(out) + '\n'


def render_file(groups, pres_of, units_block=None, include=(), other=None):
    """groups: {name: abstract data}; pres_of(name) -> pres"""
    out = []
    if units_block:
        out.append('units:')
        for k, v in units_block.items():
            out.append('    %s: %s' % (k, v))
    if include:
        out.append('include:')
        for i in include:
            out.append('    - %s' % i)
    if groups:
        out.append('groups:')
        for name, g in groups.items():
            out.append('    %s:' % yaml_key(name))
            out.append("        'thermochem':")
            for l in render_group(g, pres_of(name)):
                out.append('            ' + l)
    if not out:
        out.append('groups: {}')      # an entirely empty file is not a library file
    return '\n'.join(out) + '\n'


class TempLib(object):
    """a library directory under a scratch dir outside /repo and /verif; removed on close"""

    def __init__(self):
        self.dir = tempfile.mkdtemp(prefix='pgradd-libgen-', dir=os.environ.get('TMPDIR', '/tmp'))
        with open(os.path.join(self.dir, 'scheme.yaml'), 'w') as f:
            f.write(SCHEME)

    def write(self, fn, text):
        path = os.path.join(self.dir, fn)
        os.makedirs(os.path.dirname(path), exist_ok=True)
        with open(path, 'w') as f:
            f.write(text)

    def path(self, fn='library.yaml'):
        return os.path.join(self.dir, fn)

    def close(self):
        shutil.rmtree(self.dir, ignore_errors=True)

    def __enter__(self):
        return self

    def __exit__(self, *a):
        self.close()
