"""RING reaction-rule AST: generator with electron bookkeeping, renderer.

rule = {'name': str, 'rname': str, 'reactant': fragment AST (vlib.ringast shape), 'edits': [[op, ...], ...]}
edits (labels are atom indices into the reactant fragment):
  ['form', a, b, kind|None]  ['break', a, b, kind|None]  ['modify-bond', a, b, kind]
  ['inc-bond', a, b]  ['dec-bond', a, b]
  ['inc-rad', a]  ['dec-rad', a]  ['set-rad', a, n]
  ['inc-charge', a]  ['dec-charge', a]
"""
from hypothesis import strategies as st

from vlib import ringast

ORDER = {'single': 1, 'double': 2, 'triple': 3, 'quadruple': 4, 'aromatic': 1.5, 'partial': 0}


def edit_text(e, labels, w=lambda: ' ', w0=lambda: ''):
    op = e[0]
    L = lambda i: labels[i]
    if op in ('form', 'break'):
        kind = e[3]
        return '%s%s%sbond%s(%s%s,%s%s%s)' % (op, w(), (kind + w()) if kind else '', w0(), w0(), L(e[1]), w0(), L(e[2]), w0())
    if op == 'modify-bond':
        return 'modify bond%s(%s,%s%s,%s%s)' % (w0(), L(e[1]), w0(), L(e[2]), w0(), e[3])
    if op == 'inc-bond':
        return 'increase bond order%s(%s,%s%s)' % (w0(), L(e[1]), w0(), L(e[2]))
    if op == 'dec-bond':
        return 'decrease bond order%s(%s,%s%s)' % (w0(), L(e[1]), w0(), L(e[2]))
    if op == 'inc-rad':
        return 'increase number of radical%s(%s%s)' % (w0(), L(e[1]), w0())
    if op == 'dec-rad':
        return 'decrease number of radical%s(%s%s)' % (w0(), L(e[1]), w0())
    if op == 'set-rad':
        return 'modify number of radical%s(%s,%s%d)' % (w0(), L(e[1]), w0(), e[2])
    if op == 'inc-charge':
        return 'increase formal charge%s(%s)' % (w0(), L(e[1]))
    if op == 'dec-charge':
        return 'decrease formal charge%s(%s)' % (w0(), L(e[1]))
    raise ValueError(op)


def render(rule, layout=None):
    it = [0]
    lay = layout or [0]

    def w():
        it[0] += 1
        return ringast.WS[lay[it[0] % len(lay)] % len(ringast.WS)] if layout else ' '

    def w0():
        it[0] += 1
        return ringast.WS0[lay[it[0] % len(lay)] % len(ringast.WS0)] if layout else ''
    frag = dict(rule['reactant'], name=rule['rname'])
    body = ringast.render(frag, layout, keyword='reactant')
    labels = [a['label'] for a in rule['reactant']['atoms']]
    out = 'rule' + w() + rule['name'] + w0() + '{' + w0() + body + w()
    for e in rule['edits']:
        out += edit_text(e, labels, w, w0) + w()
    return out + '}'


def bond_between(frag, a, b):
    for i, j, k in ringast.all_bonds(frag):
        if {i, j} == {a, b}:
            return k
    return None


def balance(rule):
    """independent electron bookkeeping per labelled atom; None if an edit is structurally invalid for the reader
    (break/modify of a bond the pattern does not declare or declares with an abstract kind)"""
    n = len(rule['reactant']['atoms'])
    bal = [0.0] * n
    frag = rule['reactant']
    for e in rule['edits']:
        op = e[0]
        if op == 'form':
            o = ORDER[e[3] or 'single']
            bal[e[1]] -= o
            bal[e[2]] -= o
        elif op == 'break':
            k = bond_between(frag, e[1], e[2])
            if k is None or k not in ORDER or (e[3] or 'single') != k:
                return None
            bal[e[1]] += ORDER[k]
            bal[e[2]] += ORDER[k]
        elif op == 'modify-bond':
            k = bond_between(frag, e[1], e[2])
            if k is None or k not in ORDER or e[3] not in ORDER:
                return None
            bal[e[1]] -= ORDER[e[3]] - ORDER[k]
            bal[e[2]] -= ORDER[e[3]] - ORDER[k]
        elif op == 'inc-bond':
            bal[e[1]] -= 1
            bal[e[2]] -= 1
        elif op == 'dec-bond':
            bal[e[1]] += 1
            bal[e[2]] += 1
        elif op == 'inc-rad':
            bal[e[1]] -= 1
        elif op == 'dec-rad':
            bal[e[1]] += 1
        elif op == 'set-rad':
            bal[e[1]] -= e[2]          # the pattern atom itself carries no radical electrons
        elif op == 'inc-charge':
            bal[e[1]] -= 1
        elif op == 'dec-charge':
            bal[e[1]] += 1
    return bal


@st.composite
def reactant(draw, max_atoms=4):
    n = draw(st.integers(1, max_atoms))
    labs = draw(ringast.labels(n))
    atoms = [dict(prefix=None, symbol=draw(st.sampled_from(['C', 'C', 'C', 'O', 'H', 'H'])),
                  suffix=draw(st.sampled_from([None, None, '?', '?', '.'])), label=labs[i], constraints=[]) for i in range(n)]
    tree = [[i, draw(st.integers(0, i - 1)), draw(st.sampled_from(['single', 'single', 'single', 'double', 'triple']))]
            for i in range(1, n)]
    return dict(molprefix=[], name='r', atoms=atoms, tree=tree, ringbonds=[], stereo=[])


@st.composite
def rule(draw, balanced='maybe', frag=None):
    frag = frag if frag is not None else draw(reactant())
    n = len(frag['atoms'])
    bonds = [(i, j, k) for i, j, k in ringast.all_bonds(frag)]
    nonbonded = [(a, b) for a in range(n) for b in range(a) if bond_between(frag, a, b) is None]
    edits = []
    for _ in range(draw(st.integers(1, 3))):
        kind = draw(st.sampled_from(['break', 'break', 'form', 'inc-bond', 'dec-bond', 'modify-bond', 'radical', 'charge']))
        if kind == 'break' and bonds:
            i, j, k = draw(st.sampled_from(bonds))
            o = int(ORDER[k])
            edits.append(['break', i, j, None if (k == 'single' and draw(st.booleans())) else k])
            for _ in range(o):
                edits += [['inc-rad', i], ['inc-rad', j]]
        elif kind == 'form' and nonbonded:
            a, b = draw(st.sampled_from(nonbonded))
            edits.append(['form', a, b, draw(st.sampled_from([None, 'single']))])
            edits += [['dec-rad', a], ['dec-rad', b]]
        elif kind == 'inc-bond' and bonds:
            i, j, k = draw(st.sampled_from(bonds))
            edits += [['inc-bond', i, j], ['dec-rad', i], ['dec-rad', j]]
        elif kind == 'dec-bond' and bonds:
            i, j, k = draw(st.sampled_from(bonds))
            edits += [['dec-bond', i, j], ['inc-rad', i], ['inc-rad', j]]
        elif kind == 'modify-bond' and bonds:
            i, j, k = draw(st.sampled_from(bonds))
            new = draw(st.sampled_from(['single', 'double', 'triple']))
            edits.append(['modify-bond', i, j, new])
            d = int(ORDER[new] - ORDER[k])
            for _ in range(abs(d)):
                edits += [['dec-rad' if d > 0 else 'inc-rad', i], ['dec-rad' if d > 0 else 'inc-rad', j]]
        elif kind == 'radical':
            a = draw(st.integers(0, n - 1))
            edits += [['inc-rad', a], ['dec-rad', a]]
        else:
            a = draw(st.integers(0, n - 1))
            edits += draw(st.sampled_from([[['inc-charge', a], ['dec-rad', a]], [['dec-charge', a], ['inc-rad', a]],
                                           [['inc-charge', a], ['dec-charge', a]]]))
    if not edits:
        edits = [['inc-rad', 0], ['dec-rad', 0]]
    order = draw(st.permutations(range(len(edits))))
    edits = [edits[i] for i in order]
    mode = balanced if balanced != 'maybe' else draw(st.sampled_from(['yes', 'yes', 'yes', 'no']))
    if mode == 'no':
        k = draw(st.integers(0, len(edits) - 1))
        how = draw(st.sampled_from(['delete', 'duplicate', 'move', 'move']))
        single = [i for i, e in enumerate(edits) if e[0] in ('inc-rad', 'dec-rad', 'inc-charge', 'dec-charge')]
        if how == 'move' and single and n >= 2:
            # the same edits, one of them on another atom: the per-atom imbalances cancel in total
            i = draw(st.sampled_from(single))
            other = draw(st.sampled_from([a for a in range(n) if a != edits[i][1]]))
            edits[i] = [edits[i][0], other]
        elif how == 'delete' and len(edits) > 1:
            del edits[k]
        else:
            edits.insert(k, list(edits[k]))
    return dict(name=draw(st.sampled_from(ringast.NAME_POOL)), rname=draw(st.sampled_from(['r1', 'm', 'react', 'a'])),
                reactant=frag, edits=edits)
