"""Directed witnesses: molecules built from a scheme pattern's own atoms and bonds (DESIGN.md 3.4, pattern coverage).

A witness is only a *candidate* input: nothing is assumed about whether it matches the pattern it was built from - the
reference interpreter's hit set says whether it did.  Built from the independent parser's AST (vlib.ringparse), never from
pgradd objects."""
import itertools

from rdkit import Chem
from rdkit.Chem.EnumerateStereoisomers import EnumerateStereoisomers, StereoEnumerationOptions

BOND = {'single': Chem.BondType.SINGLE, 'double': Chem.BondType.DOUBLE, 'triple': Chem.BondType.TRIPLE,
        'aromatic': Chem.BondType.AROMATIC, 'quadruple': Chem.BondType.QUADRUPLE, 'any': Chem.BondType.SINGLE,
        'nonaromatic': Chem.BondType.SINGLE, 'ring': Chem.BondType.SINGLE, 'nonring': Chem.BondType.SINGLE,
        'strong': Chem.BondType.DOUBLE, 'partial': Chem.BondType.ZERO}
PERIODIC = Chem.GetPeriodicTable()


def _element(sym, choice, metal):
    """element for a pattern symbol; `choice` picks among the alternatives of a wildcard"""
    if sym in ('$', 'any atom'):
        return [None, 'C', 'O', metal or 'C'][choice % 4]      # None = leave it to an implicit hydrogen
    if sym in ('&', 'heteroatom'):
        return ['O', 'N'][choice % 2]
    if sym in ('X', 'heavy atom'):
        return ['C', 'O'][choice % 2]
    if sym == 'M':
        return metal or 'Pt'
    s = sym[0].upper() + sym[1:].lower()
    try:
        PERIODIC.GetAtomicNumber(s)
    except Exception:
        return 'C'
    return s


def _want(cn, have):
    op, n = cn
    if op in ('=', '==', '<=') or op is None:
        return max(0, n - have) if op != '<=' else 0
    if op == '>':
        return max(0, n + 1 - have)
    if op == '>=':
        return max(0, n - have)
    return 0


def build(frag, choice=0, metal=None, satisfy=True):
    """one candidate molecule (SMILES list, stereo variants included) or []"""
    rw = Chem.RWMol()
    idx = []
    for k, a in enumerate(frag['atoms']):
        el = _element(a['symbol'], choice + k, metal)
        if el is None:
            idx.append(None)
            continue
        at = Chem.Atom(el)
        if a['suffix'] == '.':
            at.SetNumRadicalElectrons(1)
        elif a['suffix'] == ':':
            at.SetNumRadicalElectrons(2)
        elif a['suffix'] in (':.', '.:'):
            at.SetNumRadicalElectrons(3)
        for c in a['constraints']:
            if c['kind'] == 'radical' and not c['neg'] and c['cn'] and c['cn'][0] in ('=', '==', None):
                at.SetNumRadicalElectrons(c['cn'][1])
        if a['suffix'] == '+':
            at.SetFormalCharge(1)
        elif a['suffix'] == '-':
            at.SetFormalCharge(-1)
        idx.append(rw.AddAtom(at))
    for i, j, kind in frag['bonds']:
        if idx[i] is None or idx[j] is None:
            continue
        if rw.GetBondBetweenAtoms(idx[i], idx[j]) is not None:
            continue
        bt = BOND.get(kind, Chem.BondType.SINGLE)
        rw.AddBond(idx[i], idx[j], bt)
        if kind == 'aromatic':
            rw.GetAtomWithIdx(idx[i]).SetIsAromatic(True)
            rw.GetAtomWithIdx(idx[j]).SetIsAromatic(True)
            rw.GetBondBetweenAtoms(idx[i], idx[j]).SetIsAromatic(True)
    if satisfy:
        for k, a in enumerate(frag['atoms']):
            if idx[k] is None:
                continue
            for c in a['constraints']:
                if c['kind'] != 'conn' or c['neg'] or c['cn'] is None:
                    continue
                sym = c['atom']['symbol']
                if sym in ('$', 'H'):
                    continue
                el = _element(sym, choice + 1, metal) or 'C'
                kind = c.get('bond') or 'single'
                have = 0
                for nb in rw.GetAtomWithIdx(idx[k]).GetNeighbors():
                    if nb.GetSymbol() == el:
                        b = rw.GetBondBetweenAtoms(idx[k], nb.GetIdx())
                        if kind in ('any', None) or b.GetBondType() == BOND.get(kind):
                            have += 1
                for _ in range(_want(c['cn'], have)):
                    at = Chem.Atom(el)
                    if c['atom'].get('suffix') == '.':
                        at.SetNumRadicalElectrons(1)
                    j = rw.AddAtom(at)
                    rw.AddBond(idx[k], j, BOND.get(kind, Chem.BondType.SINGLE))
    # an aromatic path that is not a ring yet: close it to a six-ring with more aromatic carbons
    arom = [a.GetIdx() for a in rw.GetAtoms() if a.GetIsAromatic()]
    if arom:
        deg = {i: sum(1 for b in rw.GetAtomWithIdx(i).GetBonds() if b.GetIsAromatic()) for i in arom}
        ends = [i for i in arom if deg[i] == 1]
        if len(ends) == 2 and len(arom) < 6 and all(d <= 2 for d in deg.values()):
            prev = ends[0]
            for _ in range(6 - len(arom)):
                at = Chem.Atom('C')
                at.SetIsAromatic(True)
                j = rw.AddAtom(at)
                rw.AddBond(prev, j, Chem.BondType.AROMATIC)
                rw.GetBondBetweenAtoms(prev, j).SetIsAromatic(True)
                prev = j
            rw.AddBond(prev, ends[1], Chem.BondType.AROMATIC)
            rw.GetBondBetweenAtoms(prev, ends[1]).SetIsAromatic(True)
    try:
        m = rw.GetMol()
        # radical / carbene centres keep exactly the hydrogens their valence leaves
        for a in m.GetAtoms():
            if a.GetNumRadicalElectrons():
                a.SetNoImplicit(False)
        Chem.SanitizeMol(m)
        if len(Chem.GetMolFrags(m)) > 1 or m.GetNumAtoms() == 0:
            return []
        out = {Chem.MolToSmiles(m)}
        if frag['stereo'] or any(b.GetBondType() == Chem.BondType.DOUBLE and not b.IsInRing() for b in m.GetBonds()):
            for iso in itertools.islice(EnumerateStereoisomers(m, options=StereoEnumerationOptions(unique=True, maxIsomers=8)), 8):
                out.add(Chem.MolToSmiles(iso))
        return sorted(out)
    except Exception:
        return []


def witnesses(frag, metal=None):
    """candidate molecules for one pattern: wildcard choices 0..3, with and without the constraint-satisfying atoms"""
    out = []
    for choice in range(4):
        for satisfy in (True, False):
            for smi in build(frag, choice, metal, satisfy):
                if smi not in out:
                    out.append(smi)
    return out
