"""Independent recursive-descent parser for the RING fragment subset used by scheme files and by the generators.

Shares no code with pgradd.RINGParser.  Produces a plain dict AST:
  {molprefix: [...], name, atoms: [{prefix, symbol, suffix, label, constraints: [...]}], bonds: [(i, j, kind)], stereo: [...]}
"""
import re
SUFFIXES = ['+.', '-.', ':.', '+', '-', '.', ':', '*', '?']
PREFIXES = ['nonaromatic', 'aromatic', 'nonringatom', 'ringatom', 'allylic']
BONDS = ['single', 'double', 'triple', 'quadruple', 'nonring', 'ring', 'aromatic', 'any', 'strong', 'partial']
SYMLIT = ['any atom', 'heteroatom', 'heavy atom', '$', '&', 'X']
CMPS = ['>=', '<=', '>', '<', '=']
class PErr(Exception): pass
class P:
    def __init__(s, text): s.t = text; s.i = 0; s.ws()
    def ws(s):
        while s.i < len(s.t) and s.t[s.i] in ' \n\t': s.i += 1
    def at(s, lit): return s.t.startswith(lit, s.i)
    def eat(s, lit):
        if not s.at(lit): raise PErr('expected %r at %d: %r' % (lit, s.i, s.t[s.i:s.i+20]))
        s.i += len(lit); s.ws()
    def opt(s, lits):
        for l in lits:
            if s.at(l): s.i += len(l); s.ws(); return l
        return None
    def ident(s):
        m = re.compile(r'[A-Za-z0-9_]+').match(s.t, s.i)
        if not m: raise PErr('expected identifier at %d: %r' % (s.i, s.t[s.i:s.i+20]))
        s.i = m.end(); s.ws(); return m.group(0)
    def digit(s):
        if s.i >= len(s.t) or not s.t[s.i].isdigit(): raise PErr('digit at %d' % s.i)
        d = int(s.t[s.i]); s.i += 1; s.ws(); return d
    def atomtype(s):
        # prefix only if followed by whitespace-separated symbol (prefix literals are tried first, like the language)
        pre = s.opt(PREFIXES)
        sym = s.opt(SYMLIT)
        if sym is None: sym = s.ident_nows()
        suf = None
        for x in SUFFIXES:
            if s.at(x): suf = x; s.i += len(x); break
        s.ws()
        return dict(prefix=pre, symbol=sym, suffix=suf)
    def ident_nows(s):
        m = re.compile(r'[A-Za-z0-9_]+').match(s.t, s.i)
        if not m: raise PErr('expected symbol at %d: %r' % (s.i, s.t[s.i:s.i+20]))
        s.i = m.end(); return m.group(0)
    def cnum(s, default):
        save = s.i
        c = s.opt(CMPS)
        if s.i < len(s.t) and s.t[s.i].isdigit():
            return (c or '=', s.digit())
        s.i = save
        return default
    def constraint(s):
        neg = s.opt(['!']) is not None
        if s.at('connected to'):
            s.eat('connected to')
            cn = s.cnum(('>=', 1))
            at = s.atomtype()
            kind = 'single'
            if s.at('with'):
                s.eat('with'); kind = s.opt(BONDS); s.eat('bond')
            return dict(kind='conn', neg=neg, cn=cn, atom=at, bond=kind)
        if s.at('in ring of size'):
            s.eat('in ring of size'); return dict(kind='ringsize', neg=neg, cn=s.cnum(None))
        if s.at('has'):
            s.eat('has'); cn = s.cnum(None); s.eat('radical electrons'); return dict(kind='radical', neg=neg, cn=cn)
        if s.at('in'):
            s.eat('in'); cn = s.cnum(None); s.eat('ring'); return dict(kind='nring', neg=neg, cn=cn)
        raise PErr('constraint at %d: %r' % (s.i, s.t[s.i:s.i+30]))
    def constraints(s):
        out = []
        if s.at('{'):
            s.eat('{')
            out.append(s.constraint())
            while s.at(','):
                s.eat(','); out.append(s.constraint())
            s.eat('}')
        return out
    def fragment(s):
        molprefix = []
        for grp in (['positive', 'negative', 'neutral'], ['aromatic', 'olefinic', 'paraffinic'], ['cyclic', 'linear']):
            # prefix words must be followed by whitespace
            for w in grp:
                if s.at(w + ' ') or s.at(w + '\n') or s.at(w + '\t'):
                    s.eat(w); molprefix.append(w); break
        s.eat('fragment'); name = s.ident(); s.eat('{')
        atoms = []; bonds = []; labels = []; stereo = []
        first = True
        while not s.at('}'):
            if s.at('stereo double bond'):
                s.eat('stereo double bond'); a = s.ident(); neg = s.opt(['!']) is not None
                typ = s.opt(['cis', 'trans', 'notspecified'])
                if typ is None: raise PErr('stereo type at %d' % s.i)
                s.eat('to'); b = s.ident(); s.eat('for double bond between'); c = s.ident(); s.eat('and'); d = s.ident()
                stereo.append((labels.index(a), labels.index(b), labels.index(c), labels.index(d), neg, typ)); continue
            if s.at('ringbond'):
                s.eat('ringbond'); a = s.ident(); k = s.opt(BONDS); s.eat('bond to'); b = s.ident()
                bonds.append((labels.index(a), labels.index(b), k)); continue
            at = s.atomtype(); s.eat('labeled'); lab = s.ident()
            idx = len(atoms)
            if not first:
                k = s.opt(BONDS)
                if k is None: raise PErr('bond kind at %d' % s.i)
                s.eat('bond to'); to = s.ident()
                bonds.append((idx, labels.index(to), k))
            at['constraints'] = s.constraints(); at['label'] = lab
            atoms.append(at); labels.append(lab); first = False
        s.eat('}')
        if s.i != len(s.t): raise PErr('trailing text')
        return dict(molprefix=molprefix, name=name, atoms=atoms, bonds=bonds, stereo=stereo)
def parse_fragment(text): return P(text).fragment()
