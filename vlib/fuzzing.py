"""Coverage-guided campaigns (atheris / libFuzzer) for the thorough tier, one subprocess per shard.

The fuzz target evaluates the semantic oracle itself and writes oracle failures to findings.jsonl; this parent
re-checks every finding through the plain (fuzzer-free) path of the property module before it is reported."""
import json
import os
import shutil
import subprocess
import sys
import tempfile

from vlib.core import HERE, REPO


def campaign(ctx, which, runs, recheck, corpus=None, max_len=256):
    """run one campaign; recheck(text) -> list of (bucket, msg) through the plain path"""
    deps = os.path.join(HERE, '.deps', 'atheris')
    if not os.path.isdir(deps):
        ctx.event('atheris:not-installed(skipped)')
        return
    out = tempfile.mkdtemp(prefix='pgradd-fuzz-', dir=os.environ.get('TMPDIR', '/tmp'))
    try:
        corp = os.path.join(out, 'corpus')
        os.makedirs(corp)
        # both an empty corpus (even shards) and a few small valid inputs (odd shards)
        if corpus and ctx.shard % 2 == 1:
            for i, t in enumerate(corpus):
                with open(os.path.join(corp, 'seed%d' % i), 'wb') as f:
                    f.write(b'\x00' + t.encode('utf8'))
        env = dict(os.environ, PYTHONHASHSEED='0', VERIF_REPO=REPO)
        cmd = [sys.executable, os.path.join(HERE, 'fuzz', 'target.py'), which, out, '-runs=%d' % runs,
               '-seed=%d' % (ctx.hseed('atheris-' + which) % (2 ** 31 - 1) + 1), '-max_len=%d' % max_len, '-timeout=120', '-rss_limit_mb=12000', '-artifact_prefix=%s/' % out, corp]
        r = subprocess.run(cmd, capture_output=True, text=True, env=env, cwd=HERE, timeout=6 * 3600)
        stats = {}
        try:
            stats = json.load(open(os.path.join(out, 'stats.json')))
        except Exception:
            pass
        ctx.count(int(stats.get('execs', 0)))
        ctx.event('atheris:%s:execs' % which, int(stats.get('execs', 0)))
        ctx.event('atheris:%s:accepted' % which, int(stats.get('accepted', 0)))
        ctx.event('atheris:%s:corpus=%s' % (which, 'seeded' if (corpus and ctx.shard % 2 == 1) else 'empty'))
        if r.returncode != 0 and 'Done' not in r.stderr[-400:]:
            ctx.event('atheris:%s:abnormal-exit' % which)
            ctx.notes['atheris-%s-stderr' % which] = r.stderr[-600:]
        fj = os.path.join(out, 'findings.jsonl')
        if os.path.exists(fj):
            for line in open(fj):
                try:
                    f = json.loads(line)
                except Exception:
                    continue
                ctx.begin('atheris', dict(kind='text', text=f['text']))
                again = recheck(f['text'])
                if not again:
                    ctx.event('atheris:%s:finding-not-reproduced' % which)
                for bucket, msg in again:
                    ctx.fail(bucket, '%s (found by the coverage-guided campaign)' % msg, case=dict(kind='text', text=f['text']))
        # crash files mean the target itself died: a harness error, never a VIOLATION
        crashes = [x for x in os.listdir(out) if x.startswith(('crash-', 'timeout-', 'oom-'))] + \
                  [x for x in os.listdir(HERE) if x.startswith(('crash-', 'timeout-', 'oom-'))]
        if crashes:
            ctx.notes['atheris-%s-crash-files' % which] = crashes[:5]
            for x in crashes:
                for d in (out, HERE):
                    try:
                        os.remove(os.path.join(d, x))
                    except OSError:
                        pass
            raise RuntimeError('atheris target for %s crashed: %s\n%s' % (which, crashes[:3], r.stderr[-800:]))
    finally:
        shutil.rmtree(out, ignore_errors=True)
