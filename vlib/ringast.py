"""RING fragment AST: grammar-directed Hypothesis strategies, molecule-directed abstraction, text renderer.

AST (plain dicts / lists, JSON-able; the same shape vlib.ringparse produces):
  {'molprefix': [...], 'name': str,
   'atoms': [{'prefix': str|None, 'symbol': str, 'suffix': str|None, 'label': str, 'constraints': [...]}],
   'bonds': [[i, j, kind], ...]        i = later-declared atom for tree bonds; ring bonds listed in 'ringbonds' too
   'tree':  [[i, j, kind], ...]        the bond each atom i>=1 is declared with ("<kind> bond to <label j>")
   'ringbonds': [[i, j, kind], ...]
   'stereo': [[a, b, c, d, neg, typ], ...]}
constraint: {'kind': 'conn', 'neg': bool, 'cn': [op, n] | None, 'atom': {prefix, symbol, suffix}, 'bond': kind | None}
            {'kind': 'ringsize' | 'nring' | 'radical', 'neg': bool, 'cn': [op, n]}   (op None = bare digit = '=')
"""
from hypothesis import strategies as st

SUFFIXES = ['+', '-', '.', ':', ':.', '+.', '-.', '?']
PREFIXES = ['aromatic', 'nonaromatic', 'ringatom', 'nonringatom']
BONDS = ['single', 'double', 'triple', 'quadruple', 'aromatic', 'ring', 'nonring', 'any', 'strong', 'partial']
CMPS = ['>', '<', '>=', '<=', '=']
SYMBOLS = ['C', 'C', 'C', 'O', 'H', 'H', '$', '&', 'X', 'any atom', 'heteroatom', 'heavy atom', 'Pt', 'M', 'N', 'Ru']
LABEL_POOL = ['c1', 'c2', 'c3', 'c4', 'a', 'b', 'x1', 'o1', 'h1', 'atom_1', 'C1', 'labeled', 'ring', 'bond', 'single',
              'fragment', 'to', 'in', 'has', 'connected', 'Atom', 'q9', '_u', 'n2', 'm', 'k7', 'z', 'with', 'cis', 'X1',
              '1a', 'double2',
              # labels made of digits only (they are names, not positions)
              '7', '3', '12', '1', '2', '0', '21']
NAME_POOL = ['a', 'frag', 'f1', 'CH3', 'test_2', 'fragment1', 'ring', 'x', 'G', 'labeled', 'q']
WS = [' ', ' ', ' ', '  ', '\n', '\t', ' \n ', '\n\n', '\t ', '   ']
WS0 = ['', '', ' ', '\n', '  ']


def cn_text(cn):
    if cn is None:
        return ''
    op, n = cn
    return '%s%d' % (op or '', n)


def atomtype_text(a, w):
    s = ''
    if a.get('prefix'):
        s += a['prefix'] + w()
    s += a['symbol']
    if a.get('suffix'):
        s += a['suffix']
    return s


def constraint_text(c, w, w0):
    s = '!' + w0() if c['neg'] else ''
    k = c['kind']
    if k == 'conn':
        s += 'connected to' + w()
        if c.get('cn') is not None:
            s += cn_text(c['cn']) + w0()
        s += atomtype_text(c['atom'], w)
        if c.get('bond'):
            s += w() + 'with' + w() + c['bond'] + w() + 'bond'
    elif k == 'ringsize':
        s += 'in ring of size' + w() + cn_text(c['cn'])
    elif k == 'nring':
        s += 'in' + w() + cn_text(c['cn']) + w() + 'ring'
    elif k == 'radical':
        s += 'has' + w() + cn_text(c['cn']) + w() + 'radical electrons'
    else:
        raise ValueError(k)
    return s


def render(ast, layout=None, keyword='fragment'):
    """layout: list of indices into WS / WS0 (cycled).  None -> single spaces / newlines."""
    it = [0]
    lay = layout or [0]

    def w():
        it[0] += 1
        return WS[lay[it[0] % len(lay)] % len(WS)] if layout else ' '

    def w0():
        it[0] += 1
        return WS0[lay[it[0] % len(lay)] % len(WS0)] if layout else ''

    out = ''
    for p in ast.get('molprefix') or []:
        out += p + w()
    out += keyword + w() + ast['name'] + w0() + '{' + w0()
    labels = [a['label'] for a in ast['atoms']]
    tree = {t[0]: t for t in ast.get('tree') or []}
    # declaration order: atoms in index order; ring bonds and stereo clauses after the atoms they mention
    pend_ring = list(ast.get('ringbonds') or [])
    pend_st = list(ast.get('stereo') or [])
    for i, a in enumerate(ast['atoms']):
        out += atomtype_text(a, w) + w() + 'labeled' + w() + a['label']
        if i in tree:
            out += w() + tree[i][2] + w() + 'bond to' + w() + labels[tree[i][1]]
        if a.get('constraints'):
            out += w0() + '{' + w0() + (w0() + ',' + w0()).join(constraint_text(c, w, w0) for c in a['constraints']) + w0() + '}'
        out += w()
        for rb in [r for r in pend_ring if max(r[0], r[1]) <= i]:
            pend_ring.remove(rb)
            out += 'ringbond' + w() + labels[rb[0]] + w() + rb[2] + w() + 'bond to' + w() + labels[rb[1]] + w()
        for sc in [s for s in pend_st if max(s[:4]) <= i]:
            pend_st.remove(sc)
            a_, b_, c_, d_, neg, typ = sc
            out += ('stereo double bond' + w() + labels[a_] + w() + ('!' + w0() if neg else '') + typ + w() + 'to' + w() +
                    labels[b_] + w() + 'for double bond between' + w() + labels[c_] + w() + 'and' + w() + labels[d_] + w())
    out += '}'
    return out


def all_bonds(ast):
    return [list(b) for b in (ast.get('tree') or [])] + [list(b) for b in (ast.get('ringbonds') or [])]


def to_ref(ast):
    """the dict the reference matcher consumes (vlib.ringref.matches)"""
    atoms = []
    for a in ast['atoms']:
        cs = []
        for c in a.get('constraints') or []:
            if c['kind'] == 'conn':
                cn = c.get('cn')
                cs.append(dict(kind='conn', neg=c['neg'], cn=('>=', 1) if cn is None else ((cn[0] or '='), cn[1]),
                               atom=dict(prefix=c['atom'].get('prefix'), symbol=c['atom']['symbol'], suffix=c['atom'].get('suffix')),
                               bond=c.get('bond') or 'single'))
            else:
                cs.append(dict(kind=c['kind'], neg=c['neg'], cn=((c['cn'][0] or '='), c['cn'][1])))
        atoms.append(dict(prefix=a.get('prefix'), symbol=a['symbol'], suffix=a.get('suffix'), label=a['label'], constraints=cs))
    return dict(molprefix=list(ast.get('molprefix') or []), name=ast['name'], atoms=atoms,
                bonds=[tuple(b) for b in all_bonds(ast)], stereo=[tuple(s) for s in ast.get('stereo') or []])


# ---------------------------------------------------------------------------------------------------
# strategies

def labels(n):
    return st.lists(st.sampled_from(LABEL_POOL), min_size=n, max_size=n, unique=True)


def layout():
    return st.one_of(st.none(), st.lists(st.integers(0, 9), min_size=1, max_size=12))


@st.composite
def atomtype(draw, symbols=SYMBOLS, allow_lower=False):
    sym = draw(st.sampled_from(symbols))
    pre = draw(st.sampled_from([None, None, None, None] + PREFIXES))
    suf = draw(st.sampled_from([None, None, None, '?', '?'] + SUFFIXES))
    return dict(prefix=pre, symbol=sym, suffix=suf)


@st.composite
def cnum(draw, optional=False, maxn=4):
    if optional and draw(st.integers(0, 2)) == 0:
        return None
    op = draw(st.sampled_from([None, None] + CMPS))
    return [op, draw(st.integers(0, maxn))]


@st.composite
def constraint(draw):
    kind = draw(st.sampled_from(['conn', 'conn', 'conn', 'ringsize', 'nring', 'radical']))
    neg = draw(st.integers(0, 3)) == 0
    if kind == 'conn':
        return dict(kind='conn', neg=neg, cn=draw(cnum(optional=True)), atom=draw(atomtype()),
                    bond=draw(st.sampled_from([None, None] + BONDS)))
    if kind == 'ringsize':
        return dict(kind=kind, neg=neg, cn=[draw(st.sampled_from([None] + CMPS)), draw(st.integers(3, 8))])
    if kind == 'nring':
        return dict(kind=kind, neg=neg, cn=draw(cnum(maxn=3)))
    return dict(kind=kind, neg=neg, cn=draw(cnum(maxn=3)))


@st.composite
def fragment(draw, max_atoms=5, constraints=True, molprefix=True, stereo=False):
    n = draw(st.integers(1, max_atoms))
    labs = draw(labels(n))
    atoms = []
    for i in range(n):
        a = draw(atomtype())
        a['label'] = labs[i]
        a['constraints'] = draw(st.lists(constraint(), max_size=2)) if constraints and draw(st.integers(0, 2)) == 0 else []
        atoms.append(a)
    tree = [[i, draw(st.integers(0, i - 1)), draw(st.sampled_from(BONDS))] for i in range(1, n)]
    ringbonds = []
    if n >= 3 and draw(st.integers(0, 4)) == 0:
        have = set((min(a, b), max(a, b)) for a, b, _ in tree)
        pairs = [(a, b) for a in range(n) for b in range(a) if (b, a) not in have]
        if pairs:
            a, b = draw(st.sampled_from(pairs))
            ringbonds.append([a, b, draw(st.sampled_from(BONDS))])
    mp = []
    if molprefix and draw(st.integers(0, 5)) == 0:
        for grp in (['positive', 'negative', 'neutral'], ['aromatic', 'olefinic', 'paraffinic'], ['cyclic', 'linear']):
            if draw(st.booleans()):
                mp.append(draw(st.sampled_from(grp)))
    return dict(molprefix=mp, name=draw(st.sampled_from(NAME_POOL)), atoms=atoms, tree=tree, ringbonds=ringbonds, stereo=[])


# ---- molecule-directed abstraction ------------------------------------------------------------------
def _sym_choices(mm, v):
    s = mm.sym[v]
    out = [s, s, s, '$']
    if mm.arom[v] and s in ('C', 'N', 'O', 'S'):
        out += [s.lower(), s.lower()]          # lower-case symbol = aromatic atom of that element
    if mm.Z[v] > 1:
        out += ['X', 'heavy atom']
    if s in ('N', 'O', 'P', 'S'):
        out += ['&', 'heteroatom']
    if s in ('Pt', 'Ru'):
        out += ['M']
    return out


def _suffix_choices(mm, v):
    c, r = mm.chg[v], mm.rad[v]
    out = ['?']
    if c == 0 and r == 0:
        out += [None, None, None]
    if c == 1 and r == 0:
        out += ['+']
    if c == -1 and r == 0:
        out += ['-']
    if r == 1:
        out += ['.'] + (['+.'] if c == 1 else []) + (['-.'] if c == -1 else [])
        if c == 0:
            out += ['.']
    if r == 2:
        out += [':']
    if r == 3:
        out += [':.']
    return out


def _bond_choices(mm, i, j):
    t = mm.adj[i][j]
    out = ['any']
    base = {'SINGLE': 'single', 'DOUBLE': 'double', 'TRIPLE': 'triple', 'QUADRUPLE': 'quadruple', 'AROMATIC': 'aromatic'}.get(t)
    if base:
        out += [base, base, base]
    if t in ('DOUBLE', 'TRIPLE', 'QUADRUPLE', 'AROMATIC'):
        out += ['strong']
    if t in ('DATIVE', 'ZERO', 'OTHER'):
        out += ['partial']
    out += ['ring'] if frozenset((i, j)) in mm.ringbonds else ['nonring']
    return out


@st.composite
def directed_fragment(draw, mm, max_atoms=5, perturb=True):
    """abstract a connected sub-graph of the molecule model mm into a fragment that matches it, then (optionally)
    perturb one feature so that it just fails or matches elsewhere"""
    n_target = draw(st.integers(1, max_atoms))
    start = draw(st.integers(0, mm.n - 1))
    order = [start]
    tree = []
    while len(order) < n_target:
        frontier = [(u, v) for u in order for v in mm.adj[u] if v not in order]
        if not frontier:
            break
        u, v = draw(st.sampled_from(sorted(frontier)))
        tree.append([len(order), order.index(u), draw(st.sampled_from(_bond_choices(mm, u, v)))])
        order.append(v)
    n = len(order)
    labs = draw(labels(n))
    atoms = []
    for k, v in enumerate(order):
        a = dict(prefix=None, symbol=draw(st.sampled_from(_sym_choices(mm, v))), suffix=draw(st.sampled_from(_suffix_choices(mm, v))),
                 label=labs[k], constraints=[])
        if draw(st.integers(0, 4)) == 0:
            a['prefix'] = draw(st.sampled_from([('aromatic' if mm.arom[v] else 'nonaromatic'), ('ringatom' if mm.inring[v] else 'nonringatom')]))
        if draw(st.integers(0, 2)) == 0:
            a['constraints'].append(draw(directed_constraint(mm, v)))
        atoms.append(a)
    ringbonds = []
    extra = [(a, b) for a in range(n) for b in range(a) if order[b] in mm.adj[order[a]] and [a, b] not in [t[:2] for t in tree]
             and [b, a] not in [t[:2] for t in tree]]
    if extra and draw(st.booleans()):
        a, b = draw(st.sampled_from(extra))
        ringbonds.append([a, b, draw(st.sampled_from(_bond_choices(mm, order[a], order[b])))])
    ast = dict(molprefix=[], name=draw(st.sampled_from(NAME_POOL)), atoms=atoms, tree=tree, ringbonds=ringbonds, stereo=[])
    tot = sum(mm.chg)
    if draw(st.integers(0, 7)) == 0 or (tot != 0 and draw(st.booleans())):
        # a charged molecule gets a charge prefix often: 'negative' / 'positive' are the only signed numbers of the language
        charge = 'neutral' if tot == 0 else 'positive' if tot == 1 else 'negative' if tot == -1 else 'neutral'
        ast['molprefix'] = [draw(st.sampled_from([charge, charge, 'cyclic' if mm.rings else 'linear'] +
                                                 (['positive', 'negative', 'neutral'] if tot != 0 else []) +
                                                 # hydrocarbon-class prefixes on whatever the molecule is (a C=O or C=N double bond
                                                 # is not an olefinic one)
                                                 ['olefinic', 'paraffinic', 'aromatic']))]
        if draw(st.integers(0, 2)) == 0:
            # several prefixes at once, in the order of the grammar (charge, class, ring): each one is a condition of its own
            stack = []
            if draw(st.booleans()):
                stack.append(draw(st.sampled_from([charge, charge, 'neutral', 'positive', 'negative'])))
            if draw(st.integers(0, 3)) > 0:
                stack.append(draw(st.sampled_from(['olefinic', 'paraffinic', 'aromatic'])))
            stack.append(draw(st.sampled_from(['cyclic' if mm.rings else 'linear', 'cyclic', 'linear'])))
            ast['molprefix'] = stack
    if perturb and draw(st.integers(0, 2)) == 0:
        what = draw(st.sampled_from(['symbol', 'suffix', 'bond', 'constraint', 'prefix']))
        k = draw(st.integers(0, n - 1))
        if what == 'symbol':
            atoms[k]['symbol'] = draw(st.sampled_from(SYMBOLS))
        elif what == 'suffix':
            atoms[k]['suffix'] = draw(st.sampled_from([None, '?'] + SUFFIXES))
        elif what == 'bond' and ringbonds and draw(st.booleans()):
            # the ring-closing statement carries a bond kind of its own (incl. ring / nonring / strong / partial)
            ringbonds[draw(st.integers(0, len(ringbonds) - 1))][2] = draw(st.sampled_from(BONDS))
        elif what == 'bond' and tree:
            tree[draw(st.integers(0, len(tree) - 1))][2] = draw(st.sampled_from(BONDS))
        elif what == 'constraint':
            atoms[k]['constraints'].append(draw(constraint()))
        else:
            atoms[k]['prefix'] = draw(st.sampled_from(PREFIXES))
    return ast


@st.composite
def directed_constraint(draw, mm, v):
    """a constraint about atom v that is true, or false by one"""
    kind = draw(st.sampled_from(['conn', 'conn', 'conn', 'ringsize', 'nring', 'radical']))
    neg = draw(st.integers(0, 3)) == 0
    off = draw(st.sampled_from([0, 0, 0, 1, -1]))
    if kind == 'conn' and mm.adj[v]:
        j = draw(st.sampled_from(sorted(mm.adj[v])))
        sym = draw(st.sampled_from(_sym_choices(mm, j)))
        suf = draw(st.sampled_from(_suffix_choices(mm, j)))
        bk = draw(st.sampled_from([None] + _bond_choices(mm, v, j)))
        from vlib import ringref
        at = dict(prefix=None, symbol=sym, suffix=suf)
        cnt = sum(1 for u in mm.adj[v] if ringref.atomtype_ok(mm, u, at) and ringref.bond_ok(mm, v, u, bk or 'single'))
        op = draw(st.sampled_from([None, '=', '>=', '<=', '>', '<']))
        return dict(kind='conn', neg=neg, cn=[op, max(0, min(9, cnt + off))] if draw(st.integers(0, 3)) else None, atom=at, bond=bk)
    if kind == 'ringsize':
        sizes = [len(r) for r in mm.rings if v in r]
        size = (draw(st.sampled_from(sizes)) if sizes else draw(st.integers(3, 7))) + off
        return dict(kind='ringsize', neg=neg, cn=[draw(st.sampled_from([None] + CMPS)), max(3, min(9, size))])
    if kind == 'nring':
        k = sum(1 for r in mm.rings if v in r)
        return dict(kind='nring', neg=neg, cn=[draw(st.sampled_from([None] + CMPS)), max(0, k + off)])
    return dict(kind='radical', neg=neg, cn=[draw(st.sampled_from([None] + CMPS)), max(0, mm.rad[v] + off)])
