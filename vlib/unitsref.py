"""Exact (Fraction) reference model of the unit table, prefixes and unit-expression trees.

The table is transcribed from the defining standards, NOT from pgradd/Units/builtin.py.
For measured constants (u, eV, molecule, lbf, BTU) the value documented in the
repository is the definition (they have no exact standard value in this table's vintage).
Dimension vector order: m, kg, s, A, K, mol, cd.
"""
from fractions import Fraction as F

DIMS = ['m', 'kg', 's', 'A', 'K', 'mol', 'cd']
ZERO = (0,) * 7


def dim(**kw):
    return tuple(F(kw.get(d, 0)) for d in DIMS)


def dmul(a, b):
    return tuple(x + y for x, y in zip(a, b))


def ddiv(a, b):
    return tuple(x - y for x, y in zip(a, b))


def dpow(a, e):
    return tuple(x * e for x in a)


class Q(object):
    """magnitude (Fraction or float) in SI + dimension vector"""
    __slots__ = ('v', 'd', 'inexact')

    def __init__(self, v, d=ZERO, inexact=False):
        self.v = v
        self.d = tuple(F(x) for x in d)
        self.inexact = inexact

    def __mul__(self, o):
        return Q(self.v * o.v, dmul(self.d, o.d), self.inexact or o.inexact)

    def __truediv__(self, o):
        return Q(self.v / o.v, ddiv(self.d, o.d), self.inexact or o.inexact)

    def pow(self, e):
        e = F(e)
        if e.denominator == 1:
            if self.v == 0 and e < 0:
                raise ZeroDivisionError
            return Q(self.v ** int(e), dpow(self.d, e), self.inexact)
        if self.v < 0:
            raise ValueError('negative base, fractional power')
        if self.v == 0 and e < 0:
            raise ZeroDivisionError
        return Q(float(self.v) ** float(e), dpow(self.d, e), True)

    def dimensionless(self):
        return all(x == 0 for x in self.d)

    def __repr__(self):
        return 'Q(%r, %s)' % (self.v, [str(x) for x in self.d])


PREFIXES = {
    'Y': F(10) ** 24, 'Z': F(10) ** 21, 'E': F(10) ** 18, 'P': F(10) ** 15, 'T': F(10) ** 12,
    'G': F(10) ** 9, 'M': F(10) ** 6, 'k': F(10) ** 3, 'h': F(10) ** 2, 'da': F(10),
    'd': F(1, 10), 'c': F(1, 100), 'm': F(1, 1000), 'u': F(10) ** -6, 'n': F(10) ** -9,
    'p': F(10) ** -12, 'f': F(10) ** -15, 'a': F(10) ** -18, 'z': F(10) ** -21, 'y': F(10) ** -24,
}

_m = dim(m=1)
_kg = dim(kg=1)
_s = dim(s=1)
_N = dim(kg=1, m=1, s=-2)
_J = dim(kg=1, m=2, s=-2)
_Pa = dim(kg=1, m=-1, s=-2)

INCH = F('0.0254')
FOOT = 12 * INCH
LB = F('0.45359237')
LBF = F('4.44822162')          # value documented in the repository
ATM = F(101325)

UNITS = {
    # base
    'm': Q(F(1), _m), 'g': Q(F(1, 1000), _kg), 's': Q(F(1), _s), 'A': Q(F(1), dim(A=1)),
    'K': Q(F(1), dim(K=1)), 'mol': Q(F(1), dim(mol=1)), 'cd': Q(F(1), dim(cd=1)),
    # derived SI
    'N': Q(F(1), _N), 'Pa': Q(F(1), _Pa), 'J': Q(F(1), _J), 'W': Q(F(1), dim(kg=1, m=2, s=-3)),
    'C': Q(F(1), dim(A=1, s=1)), 'V': Q(F(1), dim(kg=1, m=2, s=-3, A=-1)),
    'F': Q(F(1), dim(kg=-1, m=-2, s=4, A=2)), 'Ohm': Q(F(1), dim(kg=1, m=2, s=-3, A=-2)),
    # count
    'molecule': Q(1 / (F('6.02214179') * F(10) ** 23), dim(mol=1)),       # repository's Avogadro number
    # length
    'in': Q(INCH, _m), 'ft': Q(FOOT, _m),
    # volume: litre = 1 dm^3
    'L': Q(F(1, 1000), dim(m=3)),
    # time
    'min': Q(F(60), _s), 'h': Q(F(3600), _s),
    # mass
    'u': Q(F('1.660538921') * F(10) ** -27, _kg), 'lb': Q(LB, _kg), 't': Q(F(1000), _kg),
    # force
    'dyn': Q(F(10) ** -5, _N), 'lbf': Q(LBF, _N),
    # pressure
    'bar': Q(F(10) ** 5, _Pa), 'atm': Q(ATM, _Pa), 'torr': Q(ATM / 760, _Pa),
    'psi': Q(LBF / (INCH * INCH), _Pa),
    # energy
    'cal': Q(F('4.184'), _J), 'erg': Q(F(10) ** -7, _J), 'BTU': Q(F('1054.35026444'), _J),
    'eV': Q(F('1.602176487') * F(10) ** -19, _J),
    # power: hp = 33000 ft lbf / min
    'hp': Q(33000 * FOOT * LBF / 60, dim(kg=1, m=2, s=-3)),
    # viscosity: poise = 0.1 Pa s ; stokes = 1e-4 m^2/s
    'P': Q(F(1, 10), dim(kg=1, m=-1, s=-1)), 'St': Q(F(10) ** -4, dim(m=2, s=-1)),
}
assert len(UNITS) == 37


def lookup(name):
    """documented lookup order: exact name, else one-letter prefix, else 'da'"""
    if name in UNITS:
        return UNITS[name]
    if name[1:] in UNITS and name[:1] in PREFIXES:
        u = UNITS[name[1:]]
        return Q(PREFIXES[name[:1]] * u.v, u.d)
    if name[2:] in UNITS and name[:2] in PREFIXES:
        u = UNITS[name[2:]]
        return Q(PREFIXES[name[:2]] * u.v, u.d)
    raise KeyError(name)


def is_known(name):
    try:
        lookup(name)
        return True
    except KeyError:
        return False


# --------------------------------------------------------------------------
# expression trees in the shape of the documented grammar
#   expr   := factor ( ('*' | '/' | juxtaposition) factor )*
#   factor := base [ '^' number ]
#   base   := '(' expr ')' | number | name
# JSON form:
#   expr   = {'t':'expr', 'items':[factor, [op, factor]...]}  -> stored as {'first':factor,'rest':[[op,ws,factor],...]}
#   factor = {'base': base, 'exp': None | {'text': '..', 'paren': bool}}
#   base   = {'num': '2.54'} | {'name': 'kJ'} | {'sub': expr, 'ws': [..]}

def num_value(text):
    return F(text)


LO, HI = 1e-280, 1e280


def _dom(q):
    """every intermediate magnitude must stay well inside the double range (else: out of domain)"""
    a = abs(q.v)
    if a != 0 and not (LO < a < HI):
        raise OverflowError('intermediate magnitude outside the double range')
    return q


def eval_expr(e):
    acc = eval_factor(e['first'])
    for op, _ws, f in e['rest']:
        v = eval_factor(f)
        if op == '/':
            if v.v == 0:
                raise ZeroDivisionError
            acc = _dom(acc / v)
        else:
            acc = _dom(acc * v)
    return acc


def eval_factor(f):
    b = f['base']
    if 'num' in b:
        v = Q(num_value(b['num']))
    elif 'name' in b:
        v = lookup(b['name'])
    else:
        v = eval_expr(b['sub'])
    _dom(v)
    if f.get('exp') is not None:
        v = _dom(v.pow(num_value(f['exp']['text'])))
    return v


def render_expr(e):
    s = render_factor(e['first'])
    for op, ws, f in e['rest']:
        if op == ' ':
            s += (ws[0] or ' ') + render_factor(f)
        else:
            s += ws[0] + op + ws[1] + render_factor(f)
    return s


def render_factor(f):
    b = f['base']
    if 'num' in b:
        s = b['num']
    elif 'name' in b:
        s = b['name']
    else:
        ws = b.get('ws', ['', ''])
        s = '(' + ws[0] + render_expr(b['sub']) + ws[1] + ')'
    x = f.get('exp')
    if x is not None:
        s += '^' + ('(' + x['text'] + ')' if x['paren'] else x['text'])
    return s


def count_factors(e):
    n = 0
    for f in [e['first']] + [r[2] for r in e['rest']]:
        if 'sub' in f['base']:
            n += count_factors(f['base']['sub'])
        else:
            n += 1
    return n
