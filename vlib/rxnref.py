"""Reference rule application on an own labelled-graph model + breadth-first network closure (C16, C17)."""
import collections

import networkx as nx
from rdkit import Chem

ORDER = {'SINGLE': 1, 'DOUBLE': 2, 'TRIPLE': 3, 'QUADRUPLE': 4, 'QUINTUPLE': 5, 'AROMATIC': 1.5, 'DATIVE': 0, 'ZERO': 0}
KIND_ORDER = {'single': 1, 'double': 2, 'triple': 3, 'quadruple': 4, 'aromatic': 1.5, 'partial': 0}


class IllDefined(Exception):
    """the edit has no defined meaning on this molecule (forming an existing bond, radicals below zero ...)"""


def graph_of(mol):
    """labelled graph of an RDKit molecule as it is (no hydrogens added)"""
    g = nx.Graph()
    for a in mol.GetAtoms():
        g.add_node(a.GetIdx(), Z=a.GetAtomicNum(), q=a.GetFormalCharge(), r=a.GetNumRadicalElectrons())
    for b in mol.GetBonds():
        g.add_edge(b.GetBeginAtomIdx(), b.GetEndAtomIdx(), o=ORDER.get(b.GetBondType().name, -1))
    return g


def union_graph(mols):
    g = nx.Graph()
    off = 0
    for m in mols:
        h = graph_of(m)
        g = nx.disjoint_union(g, h) if off else h
        off += 1
    return g


def ghash(g):
    h = g.copy()
    for n, d in h.nodes(data=True):
        d['lab'] = '%d/%d/%d' % (d['Z'], d['q'], d['r'])
    for u, v, d in h.edges(data=True):
        d['lab'] = str(d['o'])
    return nx.weisfeiler_lehman_graph_hash(h, node_attr='lab', edge_attr='lab', iterations=4) + '/%d/%d' % (
        h.number_of_nodes(), nx.number_connected_components(h) if h.number_of_nodes() else 0)


def isomorphic(g1, g2):
    return nx.is_isomorphic(g1, g2, node_match=lambda a, b: (a['Z'], a['q'], a['r']) == (b['Z'], b['q'], b['r']),
                            edge_match=lambda a, b: a['o'] == b['o'])


def apply_edits(g, edits, assign):
    """apply the rule's edits to a copy of g at the matched atoms; assign[i] = molecule atom of pattern atom i"""
    h = g.copy()
    for e in edits:
        op = e[0]
        if op in ('form', 'break', 'modify-bond', 'inc-bond', 'dec-bond'):
            a, b = assign[e[1]], assign[e[2]]
            if a == b:
                raise IllDefined('same atom')
            has = h.has_edge(a, b)
            if op == 'form':
                if has:
                    raise IllDefined('forming a bond the molecule already has')
                h.add_edge(a, b, o=KIND_ORDER[e[3] or 'single'])
            elif op == 'break':
                if not has:
                    raise IllDefined('breaking a bond that is not there')
                h.remove_edge(a, b)
            elif op == 'modify-bond':
                if not has:
                    raise IllDefined('modifying a bond that is not there')
                h[a][b]['o'] = KIND_ORDER[e[3]]
            elif op == 'inc-bond':
                if not has or h[a][b]['o'] not in (1, 2, 3, 4):
                    raise IllDefined('increase of a missing / non-integral bond')
                h[a][b]['o'] += 1
            else:
                if not has or h[a][b]['o'] not in (1, 2, 3, 4, 5):
                    raise IllDefined('decrease of a missing / non-integral bond')
                if h[a][b]['o'] == 1:
                    h.remove_edge(a, b)
                else:
                    h[a][b]['o'] -= 1
        else:
            a = assign[e[1]]
            if op == 'inc-rad':
                h.nodes[a]['r'] += 1
            elif op == 'dec-rad':
                h.nodes[a]['r'] -= 1
                if h.nodes[a]['r'] < 0:
                    raise IllDefined('radical electrons below zero')
            elif op == 'set-rad':
                h.nodes[a]['r'] = e[2]
            elif op == 'inc-charge':
                h.nodes[a]['q'] += 1
            elif op == 'dec-charge':
                h.nodes[a]['q'] -= 1
    return h


def element_counts(g):
    return collections.Counter(d['Z'] for _, d in g.nodes(data=True))


# ---------------------------------------------------------------------------------------------------
# network closure (C17): species = hydrogen-explicit multigraph over neutral atoms; radicals are the valence deficit

VALENCE = {1: 1, 6: 4, 8: 2, 7: 3}


def species_graph(mol_with_h):
    g = nx.Graph()
    for a in mol_with_h.GetAtoms():
        g.add_node(a.GetIdx(), Z=a.GetAtomicNum(), q=0, r=0)
    for b in mol_with_h.GetBonds():
        g.add_edge(b.GetBeginAtomIdx(), b.GetEndAtomIdx(), o=int(ORDER.get(b.GetBondType().name, 1)))
    return g


def species_key(g):
    h = g.copy()
    for n, d in h.nodes(data=True):
        d['lab'] = str(d['Z'])
    for u, v, d in h.edges(data=True):
        d['lab'] = str(d['o'])
    return nx.weisfeiler_lehman_graph_hash(h, node_attr='lab', edge_attr='lab', iterations=5) + '/%d/%d' % (
        h.number_of_nodes(), h.number_of_edges())


def overvalent(g):
    for n, d in g.nodes(data=True):
        if sum(g[n][m]['o'] for m in g[n]) > VALENCE[d['Z']]:
            return True
    return False


# a rule of the pool: (Z1, Z2, bond order it applies to, new order or None = scission)
def apply_rule(g, rule):
    z1, z2, old, new = rule[:4]
    z3 = rule[4] if len(rule) > 4 else None       # a third pattern atom: single-bonded to the z2 end, not the z1 end itself
    out = []
    for u, v, d in list(g.edges(data=True)):
        zu, zv = g.nodes[u]['Z'], g.nodes[v]['Z']
        if d['o'] != old or {zu, zv} != {z1, z2} or (z1 != z2 and False):
            continue
        if z3 is not None:
            def third(a, b):
                return g.nodes[a]['Z'] == z1 and g.nodes[b]['Z'] == z2 and any(
                    w != a and g.nodes[w]['Z'] == z3 and g[b][w]['o'] == 1 for w in g[b])
            if not (third(u, v) or third(v, u)):
                continue
        h = g.copy()
        if new is None:
            h.remove_edge(u, v)
        else:
            h[u][v]['o'] = new
        comps = [h.subgraph(c).copy() for c in nx.connected_components(h)]
        out.append(comps)
    return out


def closure(seed_graphs, rules, cap=5000):
    seen = {}
    todo = []
    for g in seed_graphs:
        k = species_key(g)
        if k not in seen:
            seen[k] = g
            todo.append(g)
    multi_path = False
    while todo:
        g = todo.pop(0)
        for rule in rules:
            for comps in apply_rule(g, rule):
                for c in comps:
                    if overvalent(c):
                        continue
                    k = species_key(c)
                    if k in seen:
                        multi_path = True
                        continue
                    seen[k] = nx.convert_node_labels_to_integers(c)
                    todo.append(seen[k])
                    if len(seen) > cap:
                        raise RuntimeError('closure larger than cap')
    return seen, multi_path
