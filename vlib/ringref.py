"""Reference matcher for RING fragments: brute-force enumeration of all injective assignments of molecule atoms to
fragment atoms over an own molecule model.  Shares no code with pgradd and does not call RDKit's substructure search.
Denotation table: DESIGN.md section 3.3.  Verdicts are three-valued: features marked unspecified make an
embedding 'unspecified' (removed from both sides by the caller)."""
import operator as op
import collections
OPS = {'>': op.gt, '<': op.lt, '>=': op.ge, '<=': op.le, '=': op.eq}
METALS = {'Pt', 'Ru', 'Pd', 'Ni', 'Rh', 'Ir', 'Os', 'Cu', 'Ag', 'Au', 'Fe', 'Co'}
class MolModel:
    def __init__(self, m):
        # m: RDKit mol WITH explicit H, ring info initialised
        self.n = m.GetNumAtoms()
        self.sym = [a.GetSymbol() for a in m.GetAtoms()]
        self.Z = [a.GetAtomicNum() for a in m.GetAtoms()]
        self.chg = [a.GetFormalCharge() for a in m.GetAtoms()]
        self.rad = [a.GetNumRadicalElectrons() for a in m.GetAtoms()]
        self.arom = [a.GetIsAromatic() for a in m.GetAtoms()]
        self.adj = [dict() for _ in range(self.n)]
        self.stereo = {}
        for b in m.GetBonds():
            i, j = b.GetBeginAtomIdx(), b.GetEndAtomIdx()
            t = b.GetBondType().name
            self.adj[i][j] = t; self.adj[j][i] = t
            self.stereo[frozenset((i, j))] = (b.GetStereo().name, tuple(b.GetStereoAtoms()))
        self.rings = [tuple(r) for r in m.GetRingInfo().AtomRings()]
        self.ringbonds = set()
        for r in self.rings:
            for k in range(len(r)):
                self.ringbonds.add(frozenset((r[k], r[(k + 1) % len(r)])))
        self.inring = [any(i in r for r in self.rings) for i in range(self.n)]
def bond_ok(mm, i, j, kind):
    t = mm.adj[i].get(j)
    if t is None: return False
    if kind in ('single', 'double', 'triple', 'quadruple', 'aromatic'): return t == kind.upper()
    if kind == 'ring': return frozenset((i, j)) in mm.ringbonds
    if kind == 'nonring': return frozenset((i, j)) not in mm.ringbonds
    if kind == 'any': return True
    if kind == 'strong': return t in ('DOUBLE', 'TRIPLE', 'QUADRUPLE', 'AROMATIC')
    if kind == 'partial': return t in ('DATIVE', 'OTHER', 'ZERO')
    raise ValueError(kind)
def sym_ok(mm, i, s):
    if s in ('$', 'any atom'): return mm.Z[i] > 0
    if s in ('&', 'heteroatom'): return mm.sym[i] in ('N', 'O', 'P', 'S')
    if s in ('X', 'heavy atom'): return mm.Z[i] > 1
    if s == 'M': return mm.sym[i] in METALS
    if s[0].islower(): return mm.sym[i] == s[0].upper() + s[1:] and mm.arom[i]
    return mm.sym[i] == s
def suffix_ok(mm, i, suf):
    c, r = mm.chg[i], mm.rad[i]
    if suf is None: return c == 0 and r == 0
    if suf == '?': return True
    if suf == '+': return c == 1
    if suf == '-': return c == -1
    if suf == '.': return r == 1
    if suf == ':': return r == 2
    if suf == ':.': return r == 3
    if suf == '+.': return c == 1 and r == 1
    if suf == '-.': return c == -1 and r == 1
    raise ValueError(suf)
def prefix_ok(mm, i, pre):
    if pre is None: return True
    if pre == 'aromatic': return mm.arom[i]
    if pre == 'nonaromatic': return not mm.arom[i]
    if pre == 'ringatom': return mm.inring[i]
    if pre == 'nonringatom': return not mm.inring[i]
    raise ValueError(pre)
def atomtype_ok(mm, i, at):
    return sym_ok(mm, i, at['symbol']) and suffix_ok(mm, i, at['suffix']) and prefix_ok(mm, i, at['prefix'])
def constraint_ok(mm, i, c):
    k = c['kind']
    if k == 'conn':
        cnt = sum(1 for j in mm.adj[i] if atomtype_ok(mm, j, c['atom']) and bond_ok(mm, i, j, c['bond']))
        res = OPS[c['cn'][0]](cnt, c['cn'][1])
    elif k == 'ringsize':
        res = any(i in r and OPS[c['cn'][0]](len(r), c['cn'][1]) for r in mm.rings)
    elif k == 'nring':
        res = OPS[c['cn'][0]](sum(1 for r in mm.rings if i in r), c['cn'][1])
    elif k == 'radical':
        res = OPS[c['cn'][0]](mm.rad[i], c['cn'][1])
    else: raise ValueError(k)
    return res != c['neg']
def stereo_ok(mm, a, b, c, d, neg, typ):
    st, satoms = mm.stereo[frozenset((c, d))]
    eff = {'STEREONONE': 'notspecified', 'STEREOZ': 'cis', 'STEREOE': 'trans', 'STEREOCIS': 'cis', 'STEREOTRANS': 'trans', 'STEREOANY': 'notspecified'}[st]
    if eff != 'notspecified':
        nm = len(set(satoms) & {a, b})
        if nm == 1: eff = 'trans' if eff == 'cis' else 'cis'
    return (typ == eff) != neg
def molprefix_ok(mm, words):
    for w in words:
        tot = sum(mm.chg)
        if w == 'positive' and tot != 1: return False
        if w == 'negative' and tot != -1: return False
        if w == 'neutral' and tot != 0: return False
        if w == 'aromatic' and not any(mm.arom): return False
        cc = any(mm.sym[i] == 'C' and mm.sym[j] == 'C' and t == 'DOUBLE' for i in range(mm.n) for j, t in mm.adj[i].items())
        if w == 'olefinic' and not cc: return False
        if w == 'paraffinic' and cc: return False
        if w == 'cyclic' and not mm.rings: return False
        if w == 'linear' and mm.rings: return False
    return True
def matches(mm, frag):
    if not molprefix_ok(mm, frag['molprefix']): return set()
    atoms = frag['atoms']; nb = collections.defaultdict(list)
    for (i, j, k) in frag['bonds']:
        nb[max(i, j)].append((min(i, j), k)) if i != j else None
    out = set(); assign = []
    def rec(q):
        if q == len(atoms):
            for (a, b, c, d, neg, typ) in frag['stereo']:
                if not stereo_ok(mm, assign[a], assign[b], assign[c], assign[d], neg, typ): return
            out.add(tuple(assign)); return
        cands = range(mm.n)
        if nb[q]:
            cands = mm.adj[assign[nb[q][0][0]]].keys()
        for v in cands:
            if v in assign: continue
            if not atomtype_ok(mm, v, atoms[q]): continue
            if not all(bond_ok(mm, v, assign[p], k) for (p, k) in nb[q]): continue
            if not all(constraint_ok(mm, v, c) for c in atoms[q]['constraints']): continue
            assign.append(v); rec(q + 1); assign.pop()
    rec(0)
    return out
