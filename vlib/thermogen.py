"""Generators of synthetic group correlations and in-memory libraries (shared by C01, C06, C07, C20)."""
import numpy as np
from hypothesis import strategies as st


@st.composite
def group_spec(draw, cp='maybe', with_range='maybe', H='maybe', S='maybe', lo=None, hi=None, from_zero=False):
    """JSON spec of one group's data.  lo/hi: if given, the declared range is drawn inside [lo, hi] hull rules:
    the table and T_ref always lie inside the declared range."""
    has_cp = {'yes': True, 'no': False}.get(cp)
    if has_cp is None:
        has_cp = draw(st.integers(0, 3)) > 0
    n = draw(st.integers(1, 7)) if has_cp else 0
    t0 = float(draw(st.integers(100, 600)))
    Ts = [t0]
    for _ in range(n - 1):
        Ts.append(Ts[-1] + float(draw(st.sampled_from([1, 25, 50, 100, 100, 200, 333]))))
    Ts = Ts[:n]
    Cps = [draw(st.one_of(st.floats(-20, 40, allow_nan=False), st.integers(-5, 30).map(float))) for _ in range(n)]
    if n:
        place = draw(st.sampled_from(['first', 'inside', 'inside', 'last', 'below', 'above']))
        if place == 'first':
            T_ref = Ts[0]
        elif place == 'last':
            T_ref = Ts[-1]
        elif place == 'inside':
            T_ref = Ts[0] + (Ts[-1] - Ts[0]) * draw(st.floats(0, 1))
        elif place == 'below':
            T_ref = max(20.0, Ts[0] - draw(st.floats(1, 80)))
        else:
            T_ref = Ts[-1] + draw(st.floats(1, 200))
    else:
        T_ref = draw(st.sampled_from([298.15, 298.0, 300.0, 500.0]))
    declare = {'yes': True, 'no': False}.get(with_range)
    if declare is None:
        declare = draw(st.integers(0, 3)) > 0
    if n and not (Ts[0] <= T_ref <= Ts[-1]):
        declare = True          # without a declared range T_ref must lie inside the table
    rng = None
    if declare:
        a = min(Ts + [T_ref]) - draw(st.sampled_from([0.0, 0.0, 1.0, 50.0, 150.0]))
        b = max(Ts + [T_ref]) + draw(st.sampled_from([0.0, 0.0, 1.0, 100.0, 700.0]))
        rng = [max(1.0, a), b]
        if from_zero and draw(st.integers(0, 5)) == 0:
            rng[0] = 0.0              # 'valid from 0 K' is a range people write
    hv = {'yes': True, 'no': False}.get(H)
    if hv is None:
        hv = draw(st.integers(0, 5)) > 0
    sv = {'yes': True, 'no': False}.get(S)
    if sv is None:
        sv = draw(st.integers(0, 5)) > 0
    Hr = draw(st.one_of(st.floats(-300, 300, allow_nan=False), st.just(0.0), st.integers(-40, 40).map(float))) if hv else None
    Sr = draw(st.one_of(st.floats(-60, 60, allow_nan=False), st.just(0.0), st.integers(-20, 20).map(float))) if sv else None
    return dict(H=Hr, S=Sr, Ts=Ts, Cps=Cps, T_ref=T_ref, range=rng)


def build_group(spec):
    from pgradd.ThermoChem import ThermochemGroup
    return ThermochemGroup(spec['H'], spec['S'], dict(zip(spec['Ts'], spec['Cps'])), spec['T_ref'],
                           tuple(spec['range']) if spec['range'] else None)


def build_library(specs, names=None, uq=None):
    """in-memory GroupLibrary over plain string descriptor names"""
    from pgradd.GroupAdd.Library import GroupLibrary
    import pgradd.ThermoChem  # noqa: registers the 'thermochem' property set
    names = names or ['G%d' % i for i in range(len(specs))]
    contents = {}
    for nm, sp in zip(names, specs):
        if isinstance(sp, dict) and 'alias' in sp:
            # two names sharing ONE correlation object (allowed: contents are plain dict values)
            contents[nm] = contents[names[sp['alias']]]
            continue
        contents[nm] = {} if sp is None else {'thermochem': build_group(sp)}
    return GroupLibrary(None, contents, uq_contents=uq or {})


def effective_range(spec):
    """the temperature interval on which the group can be evaluated: declared range, else table span, else None"""
    if spec['range']:
        return tuple(spec['range'])
    if spec['Ts']:
        return (spec['Ts'][0], spec['Ts'][-1])
    return None


def counts():
    return st.one_of(st.integers(-3, 6), st.sampled_from([0.217, 0.5, -1.5, 2.25, 0, 1, 1, 2]),
                     st.floats(-4, 8, allow_nan=False))


def state_of(obj):
    """the public data of a correlation object"""
    r = obj.get_range()
    return (float(obj.T_ref), None if obj.ND_H_ref is None else float(obj.ND_H_ref), None if obj.ND_S_ref is None else float(obj.ND_S_ref),
            tuple(sorted((float(t), float(c)) for t, c in (obj.ND_Cp_data or {}).items())), None if r is None else (float(r[0]), float(r[1])))


def refused_update(obj, spec):
    """merge (overwrite=False) a correlation that CONFLICTS with obj and also brings new Cp points and a wider range.
    -> ('refused', before, after) | ('accepted', ...) | ('no-conflict-possible', ...) | ('raised:<type>', ...)"""
    from pgradd.Error import ReadOnlyDataError
    if spec['H'] is None and spec['S'] is None and not spec['Ts']:
        return 'no-conflict-possible', None, None
    Ts = list(spec['Ts'])
    new_T = [(Ts[-1] + 37.0) if Ts else 450.0, (Ts[0] + Ts[1]) / 2.0 if len(Ts) >= 2 and (Ts[0] + Ts[1]) / 2.0 not in Ts else ((Ts[-1] + 91.0) if Ts else 460.0)]
    dTs, dCps = list(new_T), [1.25, 2.5]
    H = S = None
    if spec['H'] is not None:
        H = spec['H'] + 1.0
    elif spec['S'] is not None:
        S = spec['S'] + 1.0
    else:
        dTs.append(Ts[0])
        dCps.append(spec['Cps'][0] + 1.0)        # a conflicting Cp point, met after the new ones
    lo = min(Ts + [spec['T_ref']] + dTs) if True else 0
    hi = max(Ts + [spec['T_ref']] + dTs)
    rng = spec['range'] or [lo, hi]
    donor = dict(H=H, S=S, Ts=dTs, Cps=dCps, T_ref=spec['T_ref'], range=[max(1.0, min(rng[0], lo) - 20.0), max(rng[1], hi) + 300.0])
    order = sorted(range(len(dTs)), key=lambda i: dTs[i])
    donor['Ts'], donor['Cps'] = [dTs[i] for i in order], [dCps[i] for i in order]
    before = state_of(obj)
    try:
        obj.update(build_group(donor))
    except ReadOnlyDataError:
        return 'refused', before, state_of(obj)
    except Exception as e:
        return 'raised:%s' % type(e).__name__, before, state_of(obj)
    return 'accepted', before, state_of(obj)
