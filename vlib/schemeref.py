"""Reference interpreter of scheme.yaml: normalise, centres, groups, remaps, correction descriptors (DESIGN.md 3.4)."""
import collections

import yaml
from rdkit import Chem

from vlib.ringparse import parse_fragment
from vlib.ringref import MolModel, matches

def canonical(csg, psgs):
    cnt = collections.Counter(psgs); s = csg
    for name in sorted(cnt):
        s += '(%s)' % name + ('' if cnt[name] == 1 else '%d' % cnt[name])
    return s
class SchemeRef:
    def __init__(self, path):
        d = yaml.safe_load(open(path))
        self.patterns = [(p['center_name'], p['periph_name'], parse_fragment(p['connectivity'])) for p in d['patterns']]
        self.desc = [(p['name'], parse_fragment(p['connectivity'])) for p in d.get('other_descriptors') or []]
        self.remaps = d.get('remaps') or {}
        self.hits = set()          # ('centre', index) / ('descriptor', index) patterns that matched something so far
    def normalise(self, smiles):
        m = Chem.MolFromSmiles(smiles)
        # Kekule form with the aromatic flags cleared (what sanitising-without-aromatisation leaves); only the Benson
        # perception below makes anything aromatic again
        # Kekulise the hydrogen-free molecule first, as the code's sanitisation does: for rings fused to an aromatic ring the
        # Kekule form RDKit picks depends on that order, and the form decides which shared bond is double
        Chem.Kekulize(m, clearAromaticFlags=True); m = Chem.AddHs(m)
        for b in m.GetBonds():
            if b.GetBondType().name == 'UNSPECIFIED': b.SetBondType(Chem.BondType.ZERO)
        # Benson perception on the unmodified Kekule form
        todo = []
        for r in m.GetRingInfo().AtomRings():
            if len(r) != 6 or any(m.GetAtomWithIdx(i).GetSymbol() != 'C' for i in r): continue
            ts = [m.GetBondBetweenAtoms(r[k], r[(k + 1) % 6]).GetBondType().name for k in range(6)]
            if ts in (['SINGLE', 'DOUBLE'] * 3, ['DOUBLE', 'SINGLE'] * 3): todo.append(r)
        for r in todo:
            for k in range(6):
                m.GetAtomWithIdx(r[k]).SetIsAromatic(True)
                b = m.GetBondBetweenAtoms(r[k], r[(k + 1) % 6]); b.SetIsAromatic(True); b.SetBondType(Chem.BondType.AROMATIC)
        return m, len(todo)
    def descriptors(self, smiles):
        m, narom = self.normalise(smiles)
        mm = MolModel(m)
        centre = [None] * mm.n
        for pi, (cn, pn, frag) in enumerate(self.patterns):
            vs = {t[0] for t in matches(mm, frag)}
            if vs:
                self.hits.add(('centre', pi))
            for v in vs:
                if centre[v] is not None: return ('PatternMatchError', 'ambiguous', v)
                centre[v] = (cn, pn)
        for v in range(mm.n):
            if centre[v] is None: return ('PatternMatchError', 'unassigned', v)
        out = collections.Counter()
        for v in range(mm.n):
            if centre[v][0] != 'none':
                out[canonical(centre[v][0], [centre[j][1] for j in mm.adj[v] if centre[j][1] != 'none'])] += 1
        dsc = collections.Counter()
        for di, (name, frag) in enumerate(self.desc):
            k = len({frozenset(t) for t in matches(mm, frag)})
            if k:
                dsc[name] += k
                self.hits.add(('descriptor', di))
        res = collections.Counter()
        for src in (out, dsc):
            for k, n in src.items():
                if k in self.remaps:
                    for coef, tgt in self.remaps[k]: res[tgt] += n * coef
                else: res[k] += n
        return dict(res)
