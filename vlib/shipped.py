"""Access to the nine shipped libraries (cached per process) and to their raw YAML."""
import os

import yaml

from vlib.core import REPO

LIBS = ['BensonGA', 'GRWAqueous2018', 'GRWSurface2018', 'GuSolventGA2017Aq', 'GuSolventGA2017Vac', 'PPY',
        'PtSurface2023', 'SalciccioliGA2012', 'XieGA2022']
UQ_LIBS = ['GRWAqueous2018', 'GRWSurface2018', 'GuSolventGA2017Vac']
_libs = {}
_names = {}
_sect = {}


def data_dir():
    return os.path.join(REPO, 'pgradd', 'data')


def fresh_lib(name):
    from pgradd.GroupAdd.Library import GroupLibrary
    import pgradd.ThermoChem  # noqa
    return GroupLibrary.Load(name)


def lib(name):
    if name not in _libs:
        _libs[name] = fresh_lib(name)
    return _libs[name]


def group_names(name):
    """group / descriptor names of a library, read from its data files by following the include graph from
    library.yaml (independent of GroupLibrary.Load)"""
    if name not in _names:
        names = []
        base = os.path.join(data_dir(), name)
        todo = [os.path.join(base, 'library.yaml')]
        seen = set()
        while todo:
            path = todo.pop(0)
            if path in seen or not os.path.exists(path):
                continue
            seen.add(path)
            with open(path) as f:
                d = yaml.load(f, Loader=yaml.BaseLoader)
            if not isinstance(d, dict):
                continue
            for inc in d.get('include') or []:
                todo.append(os.path.join(os.path.dirname(path), inc))
            for sect in ('groups', 'other_descriptors'):
                for k in (d.get(sect) or {}):
                    if sect == 'groups':
                        k = canonical_group_name(k)     # files spell groups freely; the library keys are canonical
                    if k not in names:
                        names.append(k)
                        _sect[(name, k)] = sect
        _names[name] = names
    return _names[name]


def canonical_group_name(text):
    """centre + peripherals sorted, run-length encoded (own implementation of the documented naming rule)"""
    import re
    import collections
    parts = re.split('[()]', text)
    centre, per, last = parts[0], [], None
    for p in parts[1:]:
        if not p:
            continue
        if p.isdigit() and last is not None:
            per.extend([last] * (int(p) - 1))
            last = None
        else:
            per.append(p)
            last = p
    cnt = collections.Counter(per)
    out = centre
    for n in sorted(cnt):
        out += '(%s)' % n + ('' if cnt[n] == 1 else '%d' % cnt[n])
    return out


def raw_yaml(name, fn):
    with open(os.path.join(data_dir(), name, fn)) as f:
        return yaml.safe_load(f)


def is_group(libname, key):
    """True if the name is defined in a 'groups' section (parsed as a Group), False for other_descriptors"""
    group_names(libname)
    return _sect.get((libname, key)) == 'groups'


def _num(v):
    import numbers
    if v is None:
        return None
    if isinstance(v, numbers.Real):
        return float(v)
    return 'NON-NUMERIC:%r' % (v,)


def fingerprint(lib):
    """JSON-able content fingerprint of a loaded library (groups, data, uncertainty block, scheme)"""
    import hashlib
    import numpy as np
    groups = {}
    for g in lib:
        ps = lib[g]
        tc = ps.get('thermochem')
        if tc is None:
            groups[str(g)] = None
            continue
        r = tc.get_range()
        groups[str(g)] = dict(T_ref=_num(tc.T_ref), H=_num(tc.ND_H_ref), S=_num(tc.ND_S_ref),
                              cp=sorted([_num(t), _num(c)] for t, c in (tc.ND_Cp_data or {}).items()),
                              range=None if r is None else [_num(r[0]), _num(r[1])])
    uq = None
    if lib.uq_contents:
        u = lib.uq_contents
        rm = u['RMSE'].thermochem
        uq = dict(basis=[str(x) for x in u['descriptors']],
                  mat=hashlib.sha1(np.ascontiguousarray(np.array(u['mat'], dtype=float)).tobytes()).hexdigest(),
                  shape=list(np.array(u['mat']).shape), dof=u['dof'],
                  rmse=dict(T_ref=_num(rm.T_ref), H=_num(rm.ND_H_ref), S=_num(rm.ND_S_ref),
                            cp=sorted([_num(t), _num(c)] for t, c in (rm.ND_Cp_data or {}).items())))
    sch = lib.scheme

    def _len(x):
        return len(x) if hasattr(x, '__len__') else -1      # never iterate: that could consume a lazily built table

    # the scheme's tables are internal attributes: whatever of them is not there (or is shaped differently) is left out of the
    # fingerprint rather than breaking the harness - the decompositions themselves are compared elsewhere
    try:
        scheme = dict(patterns=[[p['center_name'], p['periph_name']] for p in sch.patterns] if hasattr(sch.patterns, '__len__') else None,
                      n_patterns=_len(sch.patterns), n_other=_len(sch.other_descriptors),
                      remaps={str(k): [[float(a), str(b)] for a, b in v] for k, v in (sch.remaps or {}).items()})
    except Exception as e:
        scheme = dict(unavailable=type(e).__name__)
    return dict(groups=groups, uq=uq, scheme=scheme)


_rawcp = {}
CP_UNIT = {'cal/(mol*K)': 'cal/mol/K', 'cal/(mol K)': 'cal/mol/K', 'cal/mol/K': 'cal/mol/K', 'J/(mol*K)': 'J/mol/K', 'J/(mol K)': 'J/mol/K',
           'J/mol/K': 'J/mol/K', 'kJ/(mol*K)': 'kJ/mol/K', 'kJ/(mol K)': 'kJ/mol/K', 'kcal/(mol*K)': 'kcal/mol/K', 'kcal/(mol K)': 'kcal/mol/K',
           'eV/K': 'eV/K'}


def _split_qty(v, default_unit):
    """'300 K' / 300 / '6.19 cal/(mol*K)' -> (number, unit string or default)"""
    if isinstance(v, (int, float)):
        return float(v), default_unit
    txt = str(v).strip()
    parts = txt.split(None, 1)
    try:
        return float(parts[0]), (parts[1].strip() if len(parts) > 1 else default_unit)
    except ValueError:
        return None, None


def raw_cp_tables(name):
    """the heat-capacity tables AS WRITTEN in the data files (plain YAML reading along the include graph, no pgradd code):
    {library key: {'rows': [(T in K, value, 'nd' | unit-string-of-the-gas-constant-table | None)], 'duplicates': [(file, T)], 'files': [...]}}"""
    if name in _rawcp:
        return _rawcp[name]
    out = {}
    base = os.path.join(data_dir(), name)
    todo = [os.path.join(base, 'library.yaml')]
    seen = set()
    while todo:
        path = todo.pop(0)
        if path in seen or not os.path.exists(path):
            continue
        seen.add(path)
        with open(path) as f:
            d = yaml.safe_load(f)
        if not isinstance(d, dict):
            continue
        for inc in d.get('include') or []:
            todo.append(os.path.join(os.path.dirname(path), inc))
        units = d.get('units') or {}
        for sect in ('groups', 'other_descriptors'):
            for k, entry in (d.get(sect) or {}).items():
                key = canonical_group_name(str(k)) if sect == 'groups' else str(k)
                tc = (entry or {}).get('thermochem') if isinstance(entry, dict) else None
                if not isinstance(tc, dict):
                    continue
                for field, nd in (('Cp_data', False), ('ND_Cp_data', True)):
                    rows = tc.get(field)
                    if not rows:
                        continue
                    rec = out.setdefault(key, dict(rows=[], duplicates=[], files=[]))
                    rec['files'].append(os.path.relpath(path, base))
                    seen_T = set()
                    for row in rows:
                        if not isinstance(row, (list, tuple)) or len(row) != 2:
                            continue
                        T, tu = _split_qty(row[0], units.get('temperature', 'K'))
                        v, vu = (_split_qty(row[1], None) if nd else _split_qty(row[1], units.get('molar heat capacity')))
                        if T is None or v is None or tu not in ('K', 'kK', 'mK'):
                            continue
                        T = T * {'K': 1.0, 'kK': 1000.0, 'mK': 0.001}[tu]
                        if T in seen_T:
                            rec['duplicates'].append((os.path.relpath(path, base), T))
                        seen_T.add(T)
                        rec['rows'].append((T, v, 'nd' if nd else CP_UNIT.get(str(vu))))
    _rawcp[name] = out
    return out
