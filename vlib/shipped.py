"""Access to the nine shipped libraries (cached per process) and to their raw YAML."""
import os

import yaml

from vlib.core import REPO

LIBS = ['BensonGA', 'GRWAqueous2018', 'GRWSurface2018', 'GuSolventGA2017Aq', 'GuSolventGA2017Vac', 'PPY',
        'PtSurface2023', 'SalciccioliGA2012', 'XieGA2022']
UQ_LIBS = ['GRWAqueous2018', 'GRWSurface2018', 'GuSolventGA2017Vac']
_libs = {}
_names = {}
_sect = {}


def data_dir():
    return os.path.join(REPO, 'pgradd', 'data')


def fresh_lib(name):
    from pgradd.GroupAdd.Library import GroupLibrary
    import pgradd.ThermoChem  # noqa
    return GroupLibrary.Load(name)


def lib(name):
    if name not in _libs:
        _libs[name] = fresh_lib(name)
    return _libs[name]


def group_names(name):
    """group / descriptor names of a library, read from its data files (independent of GroupLibrary.Load)"""
    if name not in _names:
        names = []
        base = os.path.join(data_dir(), name)
        for root, _d, files in sorted(os.walk(base)):
            for fn in sorted(files):
                if fn.endswith('.yaml') and fn != 'scheme.yaml':
                    try:
                        with open(os.path.join(root, fn)) as f:
                            d = yaml.load(f, Loader=yaml.BaseLoader)
                    except Exception:
                        continue
                    if isinstance(d, dict):
                        for sect in ('groups', 'other_descriptors'):
                            for k in (d.get(sect) or {}):
                                if k not in names:
                                    names.append(k)
                                    _sect[(name, k)] = sect
        _names[name] = names
    return _names[name]


def raw_yaml(name, fn):
    with open(os.path.join(data_dir(), name, fn)) as f:
        return yaml.safe_load(f)


def is_group(libname, key):
    """True if the name is defined in a 'groups' section (parsed as a Group), False for other_descriptors"""
    group_names(libname)
    return _sect.get((libname, key)) == 'groups'
