"""C17 - A generated network is the duplicate-free closure of its seeds.

Oracle: differential against an independent breadth-first closure on an own graph model (vlib/rxnref.py): set
equality, no repeated species, every seed present, termination within a step cap.
"""
import collections

from hypothesis import strategies as st
from rdkit import Chem

from vlib.core import Family
from vlib import rxnref

PROPERTY = 'C17'
RULE = ('seed sets of 1-2 small neutral molecules (C1-C3 alkanes/alkenes/alkynes, methanol, ethanol, dimethyl ether, ethylene '
        'glycol, formaldehyde, their fragments) x rule sets of 1-3 rules drawn from a pool (C-H, O-H, C-C, C-O scission, '
        'C=C -> C-C, C-C -> C=C, C=O -> C-O, C#C -> C=C) each given as reaction SMARTS or as the equivalent RING rule text. '
        'Non-trivial = the closure has >= 4 species and some species is reachable along two different paths. '
        'Distinct = distinct (seeds, rules, spelling of the rules).')
ASSUMPTIONS = ['species identity = isomorphism of the hydrogen-explicit multigraph (element, bond order); radical electrons are the '
               'valence deficit, as the code\'s SetNoImplicit + AssignRadicals post-processing implies',
               'valence filter: a product species with an atom whose bond orders exceed its default valence is discarded, the other '
               'products of the same event are kept',
               'charged species are outside the domain (the code documents that its duplicate test ignores charge)',
               'termination: RunReactants calls are counted through a proxy; more than 10 x the reference closure size '
               '(x rules) + 50 is the deterministic non-termination signal']

SEEDS = ['C', 'CC', 'CCC', 'C=C', 'CC=C', 'C#C', 'CO', 'CCO', 'COC', 'OCCO', 'C=O', 'CC=O', 'O', '[CH3]', 'C[CH2]', 'OO', 'C=CC=C'[:3], 'CC(C)C'[:2] + 'C',
         # the same species with only SOME hydrogens written as atoms (the others stay implicit)
         '[H]C', '[H]CC', 'C([H])C', '[H]OC', '[H]C([H])O', '[H]C=C',
         # species without a heavy atom
         '[H][H]', '[H][H]', '[H]']
# (name, (Z1, Z2, old order, new order|None), SMARTS, RING text)
POOL = [
    ('CH-scission', (6, 1, 1, None), '[C:1][H:2]>>[C:1].[H:2]',
     'rule CH{reactant r{C? labeled c1 H? labeled h1 single bond to c1} break bond (c1, h1) increase number of radical (c1) increase number of radical (h1)}'),
    ('OH-scission', (8, 1, 1, None), '[O:1][H:2]>>[O:1].[H:2]',
     'rule OH{reactant r{O? labeled o1 H? labeled h1 single bond to o1} break bond (o1, h1) increase number of radical (o1) increase number of radical (h1)}'),
    ('CC-scission', (6, 6, 1, None), '[C:1]-[C:2]>>[C:1].[C:2]',
     'rule CC{reactant r{C? labeled c1 C? labeled c2 single bond to c1} break bond (c1, c2) increase number of radical (c1) increase number of radical (c2)}'),
    ('CO-scission', (6, 8, 1, None), '[C:1]-[O:2]>>[C:1].[O:2]',
     'rule CO{reactant r{C? labeled c1 O? labeled o2 single bond to c1} break bond (c1, o2) increase number of radical (c1) increase number of radical (o2)}'),
    ('C=C-to-single', (6, 6, 2, 1), '[C:1]=[C:2]>>[C:1]-[C:2]',
     'rule dCC{reactant r{C? labeled c1 C? labeled c2 double bond to c1} decrease bond order (c1, c2) increase number of radical (c1) increase number of radical (c2)}'),
    ('C-C-to-double', (6, 6, 1, 2), '[C:1]-[C:2]>>[C:1]=[C:2]',
     'rule iCC{reactant r{C? labeled c1 {has >0 radical electrons} C? labeled c2 single bond to c1 {has >0 radical electrons}} '
     'increase bond order (c1, c2) decrease number of radical (c1) decrease number of radical (c2)}'),
    ('C=O-to-single', (6, 8, 2, 1), '[C:1]=[O:2]>>[C:1]-[O:2]',
     'rule dCO{reactant r{C? labeled c1 O? labeled o2 double bond to c1} decrease bond order (c1, o2) increase number of radical (c1) increase number of radical (o2)}'),
    # three pattern atoms, the edit between two of them: the same atoms in another assignment are another match
    ('CC-scission-next-to-C', (6, 6, 1, None, 6), '[C:1]-[C:2]-[C:3]>>[C:1].[C:2]-[C:3]',
     'rule CCC{reactant r{C? labeled c1 C? labeled c2 single bond to c1 C? labeled c3 single bond to c2} break bond (c1, c2) '
     'increase number of radical (c1) increase number of radical (c2)}'),
    ('HH-scission', (1, 1, 1, None), '[H:1][H:2]>>[H:1].[H:2]',
     'rule HH{reactant r{H? labeled h1 H? labeled h2 single bond to h1} break bond (h1, h2) increase number of radical (h1) increase number of radical (h2)}'),
    ('C#C-to-double', (6, 6, 3, 2), '[C:1]#[C:2]>>[C:1]=[C:2]',
     'rule tCC{reactant r{C? labeled c1 C? labeled c2 triple bond to c1} decrease bond order (c1, c2) increase number of radical (c1) increase number of radical (c2)}'),
]


class StepCap(BaseException):
    pass


class Proxy(object):
    def __init__(self, inner, counter):
        self.inner, self.counter = inner, counter

    def GetNumReactantTemplates(self):
        return self.inner.GetNumReactantTemplates()

    def RunReactants(self, reactants):
        self.counter[0] += 1
        if self.counter[0] > self.counter[1]:
            raise StepCap()
        return self.inner.RunReactants(reactants)


@st.composite
def net_case(draw):
    # distinct SPECIES (two spellings of one molecule would be the same seed given twice: not a documented input)
    seeds = draw(st.lists(st.sampled_from(SEEDS), min_size=1, max_size=2, unique_by=lambda x: Chem.MolToSmiles(Chem.MolFromSmiles(x))))
    idx = draw(st.lists(st.integers(0, len(POOL) - 1), min_size=1, max_size=3, unique=True))
    forms = [draw(st.sampled_from(['smarts', 'ring'])) for _ in idx]
    return dict(kind='net', seeds=seeds, rules=idx, forms=forms)


def species_of(mol):
    return rxnref.species_key(rxnref.species_graph(Chem.AddHs(mol)))


def check_net(ctx, case):
    from pgradd.RDkitWrapper.GenRxnNet import GenerateRxnNet
    from pgradd.RINGParser import Read
    from rdkit.Chem.AllChem import ReactionFromSmarts
    seeds, idx, forms = case['seeds'], case['rules'], case['forms']
    ref_rules = [POOL[i][1] for i in idx]
    seed_graphs = [rxnref.species_graph(Chem.AddHs(Chem.MolFromSmiles(s))) for s in seeds]
    closure, multi = rxnref.closure(seed_graphs, ref_rules)
    want = set(closure)
    counter = [0, 10 * len(want) * len(idx) + 50]
    rules = []
    for i, f in zip(idx, forms):
        inner = ReactionFromSmarts(POOL[i][2]) if f == 'smarts' else Read(POOL[i][3])
        rules.append(Proxy(inner, counter))
    label = 'seeds %s rules %s' % (seeds, [(POOL[i][0], f) for i, f in zip(idx, forms)])
    ctx.case(nontrivial=len(want) >= 4 and multi, key=[seeds, idx, forms], sample=dict(seeds=seeds, rules=[(POOL[i][0], f) for i, f in zip(idx, forms)], closure=len(want)))
    ctx.event('closure-size:%s' % ('1-3' if len(want) < 4 else '4-15' if len(want) <= 15 else '16-60' if len(want) <= 60 else '>60'))
    for i, f in zip(idx, forms):
        ctx.event('rule:%s:%s' % (POOL[i][0], f))
    try:
        got = GenerateRxnNet(list(seeds), list(rules))
    except StepCap:
        ctx.fail('does-not-terminate', '[%s] more than %d rule applications for a closure of %d species' % (label, counter[1], len(want)))
        return
    except Exception as e:
        import traceback
        inner = [fr for fr in traceback.extract_tb(e.__traceback__) if '/pgradd/' in fr.filename]
        ctx.fail('generation-raises:%s:%s' % (type(e).__name__, inner[-1].name if inner else '?'), '[%s] raised %s: %s' % (label, type(e).__name__, str(e)[:200]))
        return
    keys = [species_of(m) for m in got]
    cnt = collections.Counter(keys)
    smi = {k: Chem.MolToSmiles(m) for k, m in zip(keys, got)}
    dups = [smi[k] for k, n in cnt.items() if n > 1]
    if dups:
        ctx.fail('species-listed-twice', '[%s] listed more than once: %s (of %d entries, %d distinct)' % (label, dups[:5], len(got), len(cnt)))
    for s, g in zip(seeds, seed_graphs):
        if rxnref.species_key(g) not in cnt:
            ctx.fail('seed-missing', '[%s] seed %s is not in the result' % (label, s))
    extra = [smi[k] for k in cnt if k not in want]
    missing = [k for k in want if k not in cnt]
    if extra:
        ctx.fail('species-outside-the-closure', '[%s] not obtainable by the rules: %s' % (label, extra[:5]))
    if missing:
        ctx.fail('closure-species-missing', '[%s] %d of %d closure species missing, e.g. graphs with %s atoms' % (label, len(missing), len(want), [closure[k].number_of_nodes() for k in missing[:4]]))


    # the other documented input forms give the same network: seeds as Mol objects (or one bare string), rules as their text;
    # and the same rule OBJECTS used for a second network right afterwards
    if cnt and not dups and not extra and not missing:
        variants = []
        counter[0] = 0
        variants.append(('same rule objects again', list(seeds), rules))
        variants.append(('Mol-object seeds', [Chem.MolFromSmiles(s) for s in seeds], rules))
        variants.append(('Mol-object seeds with the hydrogens of one atom explicit', [Chem.AddHs(Chem.MolFromSmiles(s), onlyOnAtoms=[0]) for s in seeds], rules))
        variants.append(('Mol-object seeds with all hydrogens explicit', [Chem.AddHs(Chem.MolFromSmiles(s)) for s in seeds], rules))
        texts = [POOL[i][2] if f == 'smarts' else POOL[i][3] for i, f in zip(idx, forms)]
        variants.append(('rules as text', list(seeds), list(texts)))
        if len(seeds) == 1:
            variants.append(('bare string seed, single rule not in a list' if len(texts) == 1 else 'bare string seed', seeds[0], texts[0] if len(texts) == 1 else list(texts)))
        # the same rule OBJECTS on another seed afterwards (one they may not match at all): its own closure, nothing carried over
        other = next(x for x in ('O', 'C', '[H][H]', 'CO', 'CC') if x not in seeds)
        og = [rxnref.species_graph(Chem.AddHs(Chem.MolFromSmiles(other)))]
        oclosure, _ = rxnref.closure(og, ref_rules)
        counter[0] = 0
        try:
            got3 = GenerateRxnNet([other], rules)
            k3 = collections.Counter(species_of(m) for m in got3)
            ctx.count()
            ctx.event('rule-objects-on-another-seed')
            if set(k3) != set(oclosure) or any(n > 1 for n in k3.values()):
                ctx.fail('network-depends-on-earlier-use-of-the-rule-objects', '[%s] the same rule objects then run on %r: %d species (%s), its closure has %d'
                         % (label, other, len(k3), sorted(Chem.MolToSmiles(m) for m in got3)[:8], len(oclosure)))
        except StepCap:
            ctx.fail('does-not-terminate:other-seed', '[%s] then %r: more than %d rule applications' % (label, other, counter[1]))
        except Exception as e:
            ctx.fail('generation-raises:%s:other-seed' % type(e).__name__, '[%s] then seed %r raised %s: %s' % (label, other, type(e).__name__, str(e)[:160]))
        for name, sd, rl in variants:
            counter[0] = 0
            try:
                got2 = GenerateRxnNet(sd, rl)
            except StepCap:
                ctx.fail('does-not-terminate:%s' % name, '[%s; %s] more than %d rule applications' % (label, name, counter[1]))
                continue
            except Exception as e:
                ctx.fail('generation-raises:%s:%s' % (type(e).__name__, name), '[%s; %s] raised %s: %s' % (label, name, type(e).__name__, str(e)[:200]))
                continue
            ctx.count()
            ctx.event('input-form:%s' % name.split(',')[0])
            k2 = collections.Counter(species_of(m) for m in got2)
            if k2 != cnt:
                ctx.fail('network-depends-on-input-form:%s' % name.split(',')[0], '[%s] %s: %d species (%d distinct) instead of %d; only here: %s, only before: %s'
                         % (label, name, sum(k2.values()), len(k2), len(cnt), [k for k in k2 if k not in cnt][:3], [smi[k] for k in cnt if k not in k2][:3]))


def enum_fixed(tier):
    # the docstring example and each rule alone in both spellings
    yield dict(kind='net', seeds=['CC'], rules=[0, 2], forms=['smarts', 'smarts'])
    yield dict(kind='net', seeds=['CC'], rules=[0, 2], forms=['ring', 'ring'])
    for f in ('smarts', 'ring'):
        hh = [i for i, p_ in enumerate(POOL) if p_[0] == 'HH-scission'][0]
        yield dict(kind='net', seeds=['[H][H]'], rules=[hh], forms=[f])
        yield dict(kind='net', seeds=['CO', '[H][H]'], rules=[hh, 3], forms=[f, 'smarts'])
    for i in range(len(POOL)):
        for f in ('smarts', 'ring'):
            yield dict(kind='net', seeds=['CCO' if POOL[i][1][1] == 8 or POOL[i][1][0] == 8 else 'CC=C' if POOL[i][1][2] == 2 else 'C#C' if POOL[i][1][2] == 3 else 'CCC'],
                       rules=[i], forms=[f])


FAMILIES = [
    Family('fixed', lambda ctx, case: check_net(ctx, case), enumerate=enum_fixed),
    Family('networks', lambda ctx, case: check_net(ctx, case), strategy=lambda tier: net_case(), n=(3000, 150000)),
]
