"""C10 - Unit expressions evaluate to the exact SI value and dimension.

Oracle: differential against vlib.unitsref (exact Fraction model whose table is
transcribed from the defining standards), round trips for conversions, and an
outcome-class predicate for malformed text.
"""
import math
from fractions import Fraction as F

from hypothesis import strategies as st

from vlib.core import Family
from vlib import unitsref as U

PROPERTY = 'C10'
RULE = ('(1) exhaustive: every documented unit name x {no prefix, 20 SI prefixes} (777 strings), value and 7 exponents '
        'against the Fraction table, sharded and again as one long single-process history (forwards, backwards, all 16317 '
        'doubly-prefixed names, forwards again); (2) Hypothesis expression trees in the shape of the documented grammar (numbers, '
        'names, prefixed names, * / juxtaposition, parentheses, ^ with integer/negative/decimal/parenthesised exponents, '
        'generated spacing), depth <= 3; (3) conversions in_units/with_units/to_SI_from/from_SI_to/has_units over pairs '
        'of unit expressions, compatible and incompatible; (4) constructed malformed strings and token mutations of valid '
        'ones. Non-trivial = prefixed name, or >=2 factors of different dimension, or a power != 1, or (conversions) a '
        'pair of different units, or a rejected string. Distinct = distinct rendered text.')
ASSUMPTIONS = ['unit table of the reference model is transcribed from the defining standards; u, eV, molecule, lbf, BTU '
               'take the value documented in the repository',
               'expressions with an intermediate exact value outside [1e-280, 1e280], that divide by zero or raises a negative number to a '
               'fractional power are outside the domain (counted, not judged)',
               'magnitude tolerance 1e-12 relative (1e-9 when a fractional power is involved); exponents exact for '
               'integers, 1e-9 for fractions']

_m = {}


def _pg():
    if not _m:
        from pgradd.Units import eval_qty, Quantity, with_units, in_units, has_units, to_SI_from, from_SI_to
        from pgradd.Units import ArrayQuantity
        from pgradd.Error import UnitsParseError, UnitsError
        _m.update(eval_qty=eval_qty, Quantity=Quantity, with_units=with_units, in_units=in_units,
                  has_units=has_units, to_SI_from=to_SI_from, from_SI_to=from_SI_to,
                  UnitsParseError=UnitsParseError, UnitsError=UnitsError, ArrayQuantity=ArrayQuantity)
    return _m


NAMES = sorted(U.UNITS)
PREF = sorted(U.PREFIXES)


def unpack(res):
    m = _pg()
    if isinstance(res, m['Quantity']):
        return res.value, [float(x) for x in res.units.exps], 'Quantity'
    if isinstance(res, bool) or not isinstance(res, (int, float)):
        return res, None, type(res).__name__
    return res, [0.0] * 7, 'number'


def compare(ctx, text, res, model, case, tag):
    """compare a real evaluation result with the model Q; report failures in buckets"""
    val, exps, kind = unpack(res)
    if exps is None:
        ctx.fail('%s:result-type:%s' % (tag, kind), '%r evaluates to %r' % (text, res), case=case)
        return False
    ok = True
    if model.dimensionless() and kind != 'number':
        ctx.fail('%s:dimensionless-not-plain-number' % tag, '%r -> %r' % (text, res), case=case)
        ok = False
    for i, (a, b) in enumerate(zip(exps, model.d)):
        tol = 0.0 if b.denominator == 1 else 1e-9
        if abs(a - float(b)) > tol:
            ctx.fail('%s:dimension' % tag, '%r: exponent of %s is %r, definitions give %s (all: %r vs %s)'
                     % (text, U.DIMS[i], a, b, exps, [str(x) for x in model.d]), case=case)
            ok = False
            break
    mv = float(model.v)
    tol = 1e-9 if model.inexact else 1e-12
    if not (isinstance(val, (int, float)) and math.isfinite(val)) or abs(val - mv) > tol * abs(mv):
        ctx.fail('%s:magnitude' % tag, '%r: SI magnitude %r, definitions give %r' % (text, val, mv), case=case)
        ok = False
    return ok


# -- (1) exhaustive name x prefix table ----------------------------------------
def enum_names(tier):
    for n in NAMES:
        yield dict(kind='name', text=n, unit=n, prefix='')
        for p in PREF:
            yield dict(kind='name', text=p + n, unit=n, prefix=p)


def check_name(ctx, case):
    m = _pg()
    text = case['text']
    model = U.lookup(text)
    # which unit does the documented lookup order resolve to?
    resolved = 'exact' if text in U.UNITS else ('prefix1' if text[1:] in U.UNITS and text[:1] in U.PREFIXES
                                                else 'prefix-da')
    ctx.case(nontrivial=bool(case['prefix']), key=text, sample=dict(text=text, resolved=resolved,
                                                                     si=float(model.v)))
    ctx.event('name:' + resolved)
    unit = case.get('unit', text)
    try:
        res = m['eval_qty'](text)
    except Exception as e:
        tag = 'unit-definition:%s' % unit if not case.get('prefix') else 'prefix:%s' % case['prefix']
        ctx.fail('%s:raises-%s' % (tag, type(e).__name__), '%r raises %s: %s' % (text, type(e).__name__, e))
        return
    if resolved == 'exact':
        ok = compare(ctx, text, res, model, case, 'unit-definition:%s' % text)
    else:
        # a wrong base unit is reported under its own name once; here only the prefix matters
        base = U.UNITS[text[len(case['prefix']):]] if case.get('prefix') else None
        try:
            bres = m['eval_qty'](text[len(case['prefix']):])
            bval = unpack(bres)[0]
            if base is not None and abs(bval - float(base.v)) > 1e-12 * abs(float(base.v)):
                ctx.event('name:skipped-base-unit-already-wrong')
                return
        except Exception:
            return
        ok = compare(ctx, text, res, model, case, 'prefix:%s' % case['prefix'])
    if not ok or model.dimensionless():
        return
    # what a caller does with the returned quantity (augmented arithmetic on its own variable) is the caller's business:
    # the name means the same afterwards
    q = res
    try:
        q *= 3.0
        q /= 7
        q += q
        q -= 0.25 * q
        q **= 2
    except Exception as e:
        ctx.fail('augmented-arithmetic-raises:%s' % type(e).__name__, 'q = eval_qty(%r); q *= 3.0; q /= 7; q += q; q -= 0.25*q; q **= 2 raised %s: %s' % (text, type(e).__name__, e))
        return
    ctx.count()
    try:
        again = m['eval_qty'](text)
    except Exception as e:
        ctx.fail('name-changed-by-callers-arithmetic:raises', '%r raises %s after augmented arithmetic on the quantity it returned before' % (text, type(e).__name__))
        return
    b = unpack(again)
    v0, e0 = float(model.v), [float(x) for x in model.d]
    if b[1] is None or any(abs(x - y) > 1e-9 for x, y in zip(b[1], e0)) or abs(b[0] - v0) > 1e-9 * abs(v0):
        ctx.fail('name-changed-by-callers-arithmetic', 'eval_qty(%r) = %r after q = eval_qty(%r); q *= 3.0; q /= 7; ...: SI value %r exponents %s expected'
                 % (text, again, text, v0, e0))


def enum_names_history(tier):
    """One process, one long history: the whole table forwards, then backwards, then every doubly-prefixed
    name (which must be rejected unless the documented lookup order resolves it).  Catches lookups whose
    answer depends on what was evaluated before."""
    fwd = list(enum_names(tier))
    for c in fwd:
        yield c
    for c in reversed(fwd):
        yield c
    for n in NAMES:
        for p1 in PREF:
            for p2 in PREF:
                yield dict(kind='stacked', text=p1 + p2 + n)
    for c in fwd:
        yield c


def check_stacked(ctx, case):
    m = _pg()
    t = case['text']
    known = U.is_known(t)
    ctx.case(nontrivial=True, key=['stacked', t], sample=dict(text=t, resolves=known))
    ctx.event('stacked:resolves' if known else 'stacked:unknown')
    try:
        res = m['eval_qty'](t)
    except m['UnitsParseError']:
        if known:
            ctx.fail('stacked:rejects-known', '%r rejected although the lookup order resolves it' % t)
        return
    except Exception as e:
        ctx.fail('stacked:raises-%s' % type(e).__name__, '%r raises %s: %s' % (t, type(e).__name__, e))
        return
    if not known:
        ctx.fail('stacked:accepted', '%r (two prefixes) accepted as %r' % (t, res))
    else:
        compare(ctx, t, res, U.lookup(t), case, 'stacked')


# -- (2) expression trees ---------------------------------------------------------
WS = st.sampled_from(['', '', ' ', '  ', '\t'])
WS1 = st.sampled_from([' ', ' ', '  ', '\t', ' \t'])
# 'L' is excluded from generated trees only while its definition is listed wrong (counted in evidence by the name table)
TREE_NAMES = [n for n in NAMES]


def number_text(neg_ok=True):
    pos = st.one_of(
        st.integers(1, 12).map(str),
        st.sampled_from(['2.54', '0.5', '.5', '5.', '1.0', '100.0', '4.184', '760', '33000', '1000', '60', '10',
                         '6.02214179', '0.001', '3', '1e3', '2.5E-3', '6.02e23', '1e+06', '1.5e-05', '4E0']),
        st.tuples(st.integers(0, 999), st.integers(1, 999)).map(lambda t: '%d.%03d' % t).filter(lambda s: float(s) != 0))
    if not neg_ok:
        return pos
    return st.one_of(pos, pos, pos, pos.map(lambda s: '-' + s))


def exponent():
    ints = st.sampled_from(['2', '3', '-1', '-2', '1', '0', '4', '-3', '23', '-27']).map(
        lambda s: dict(text=s))
    fracs = st.sampled_from(['0.5', '1.5', '-0.5', '2.0', '0.25', '-1.5', '.5']).map(lambda s: dict(text=s))
    return st.tuples(st.one_of(ints, ints, fracs), st.booleans()).map(lambda t: dict(text=t[0]['text'], paren=t[1]))


def unit_name():
    plain = st.sampled_from(TREE_NAMES)
    pref = st.tuples(st.sampled_from(PREF), st.sampled_from(TREE_NAMES)).map(lambda t: t[0] + t[1])
    return st.one_of(plain, pref)


@st.composite
def factor(draw, depth):
    kind = draw(st.sampled_from(['name', 'name', 'name', 'num', 'sub'] if depth > 0 else ['name', 'name', 'num']))
    if kind == 'name':
        base = dict(name=draw(unit_name()))
    elif kind == 'num':
        base = dict(num=draw(number_text()))
    else:
        base = dict(sub=draw(expr(depth - 1)), ws=[draw(WS), draw(WS)])
    exp = None
    if draw(st.integers(0, 9)) < 4:
        exp = draw(exponent())
        if 'num' in base:
            # numbers: only small integer-ish bases get big exponents (10^23); negative bases only integer powers
            if abs(int(float(exp['text']))) > 4 and base['num'] != '10':
                exp['text'] = '2'
            if base['num'].startswith('-') and '.' in exp['text']:
                exp['text'] = '2'
        else:
            if abs(float(exp['text'])) > 4:
                exp['text'] = '-2'
    return dict(base=base, exp=exp)


@st.composite
def expr(draw, depth=2):
    first = draw(factor(depth))
    n = draw(st.sampled_from([0, 1, 1, 2, 2, 3, 4]))
    rest = []
    for _ in range(n):
        op = draw(st.sampled_from(['*', '/', ' ', ' ']))
        f = draw(factor(depth))
        ws = [draw(WS1), ''] if op == ' ' else [draw(WS), draw(WS)]
        rest.append([op, ws, f])
    return dict(first=first, rest=rest)


def fix_juxtaposition(e):
    """whitespace between juxtaposed factors may be dropped only where the tokenizer still separates them"""
    prev = U.render_factor(e['first'])
    for item in e['rest']:
        op, ws, f = item
        cur = U.render_factor(f)
        if op == ' ':
            left, right = prev[-1], cur[0]
            safe = (left in '0123456789.)' and (right.isalpha() or right == '(')) or \
                   (left.isalpha() and right == '(')
            if not ws[0] and not safe:
                ws[0] = ' '
        prev = cur
    for f in [e['first']] + [r[2] for r in e['rest']]:
        if 'sub' in f['base']:
            fix_juxtaposition(f['base']['sub'])
    return e


def tree_strategy(tier):
    return st.tuples(expr(2), st.booleans()).map(lambda t: dict(kind='tree', tree=fix_juxtaposition(t[0]),
                                                                 tight=t[1]))


def tree_features(e, feats):
    for f in [e['first']] + [r[2] for r in e['rest']]:
        b = f['base']
        if 'name' in b:
            feats.add('prefixed' if b['name'] not in U.UNITS else 'name')
        elif 'num' in b:
            feats.add('negative-number' if b['num'].startswith('-') else 'number')
        else:
            feats.add('paren')
            tree_features(b['sub'], feats)
        if f.get('exp'):
            t = f['exp']['text']
            feats.add('pow-fractional' if '.' in t else ('pow-negative' if t.startswith('-') else 'pow-int'))
            if f['exp']['paren']:
                feats.add('pow-parenthesised')
    for r in e['rest']:
        feats.add({'*': 'op-mul', '/': 'op-div', ' ': 'op-juxtaposition'}[r[0]])


def check_tree(ctx, case):
    m = _pg()
    tree = case['tree']
    text = U.render_expr(tree)
    try:
        model = U.eval_expr(tree)
    except (ZeroDivisionError, ValueError, OverflowError):
        ctx.event('tree:out-of-domain')
        return
    feats = set()
    tree_features(tree, feats)
    nf = U.count_factors(tree)
    nontriv = ('prefixed' in feats or any(f.startswith('pow') for f in feats) or nf >= 2)
    ctx.case(nontrivial=nontriv, key=text, sample=dict(text=text, si=float(model.v),
                                                        dims=[str(x) for x in model.d]))
    for f in feats:
        ctx.event('tree:' + f)
    ctx.event('tree:factors=%d' % min(nf, 6))
    ctx.event('tree:dimensionless' if model.dimensionless() else 'tree:dimensioned')
    try:
        res = m['eval_qty'](text)
    except (OverflowError, ZeroDivisionError):
        ctx.event('tree:real-arith-overflow')      # intermediate float overflow; not covered by the statement
        return
    except Exception as e:
        names = _names_in(tree)
        bad = [n for n in names if _name_broken(n)]
        tag = ('tree:raises-%s:via-%s' % (type(e).__name__, _name_tag(bad[0]))) if bad else \
            'tree:raises-%s' % type(e).__name__
        ctx.fail(tag, '%r raises %s: %s' % (text, type(e).__name__, e))
        return
    # names whose own table entry / prefix is wrong are reported by the name table; attribute, do not re-count
    bad = [n for n in _names_in(tree) if _name_broken(n)]
    if bad:
        ctx.event('tree:contains-known-wrong-name')
        return
    compare(ctx, text, res, model, case, 'tree')


_broken_cache = {}


def _name_broken(n):
    """does the real table disagree with the model for this single name (so it is the name table's finding)?"""
    if n not in _broken_cache:
        m = _pg()
        try:
            r = m['eval_qty'](n)
            val, exps, kind = unpack(r)
            mod = U.lookup(n)
            _broken_cache[n] = not (exps is not None and abs(val - float(mod.v)) <= 1e-12 * abs(float(mod.v))
                                    and all(abs(a - float(b)) == 0 for a, b in zip(exps, mod.d)))
        except Exception:
            _broken_cache[n] = True
    return _broken_cache[n]


def _name_tag(n):
    return 'name'


def _names_in(e, acc=None):
    acc = [] if acc is None else acc
    for f in [e['first']] + [r[2] for r in e['rest']]:
        b = f['base']
        if 'name' in b:
            acc.append(b['name'])
        elif 'sub' in b:
            _names_in(b['sub'], acc)
    return acc


# -- (3) conversions -------------------------------------------------------------------
@st.composite
def unit_expr(draw):
    """a unit-like expression: product/quotient of (prefixed) names with small integer powers"""
    n = draw(st.integers(1, 3))
    fs = []
    for _ in range(n):
        exp = None
        if draw(st.integers(0, 3)) == 0:
            exp = dict(text=draw(st.sampled_from(['2', '3', '-1', '-2'])), paren=draw(st.booleans()))
        fs.append(dict(base=dict(name=draw(unit_name())), exp=exp))
    rest = [[draw(st.sampled_from(['*', '/', ' '])), [' ', ' '], f] for f in fs[1:]]
    return dict(first=fs[0], rest=rest)


COMPAT = [['J', 'cal', 'kcal', 'erg', 'BTU', 'eV', 'N m', 'kW h', 'L atm', 'kg m^2/s^2', 'W s', 'C V', 'hp min'],
          ['Pa', 'bar', 'atm', 'torr', 'psi', 'N/m^2', 'kPa', 'dyn/cm^2', 'J/m^3', 'lbf/in^2'],
          ['m', 'in', 'ft', 'cm', 'km', 'um', 'dam'],
          ['kg', 'g', 'lb', 'u', 't', 'mg'],
          ['s', 'min', 'h', 'ms', 'das'],
          ['J/mol', 'kcal/mol', 'eV/molecule', 'kJ/kmol', 'cal/mol'],
          ['J/mol/K', 'cal/(mol K)', 'kJ/(mol K)', 'eV/molecule/K', 'J/(mol K)'],
          ['N', 'dyn', 'lbf', 'kg m/s^2'], ['W', 'hp', 'J/s', 'BTU/h'], ['P', 'Pa s', 'g/(cm s)', 'cP'],
          ['St', 'm^2/s', 'cm^2/s'], ['L', 'm^3', 'cm^3', 'dm^3', 'mL', 'ft^3'], ['mol', 'molecule', 'kmol'],
          ['K', 'mK', 'kK']]


@st.composite
def conversion_case(draw):
    mode = draw(st.sampled_from(['family', 'family', 'random']))
    x = draw(st.one_of(st.integers(-1000, 1000).filter(lambda v: v != 0), st.just(0),
                       st.floats(1e-6, 1e6, allow_nan=False), st.floats(-1e6, -1e-6, allow_nan=False)))
    if mode == 'family':
        fam = draw(st.sampled_from(COMPAT))
        a, b = draw(st.sampled_from(fam)), draw(st.sampled_from(fam))
        if draw(st.integers(0, 4)) == 0:
            b = draw(st.sampled_from(draw(st.sampled_from(COMPAT))))
        return dict(kind='conv', q=a, u=b, x=x)
    a, b = draw(unit_expr()), draw(unit_expr())
    return dict(kind='conv', q=U.render_expr(a), u=U.render_expr(b), x=x, qt=a, ut=b)


def model_of_text(text, tree=None):
    if tree is not None:
        return U.eval_expr(tree)
    return _mini_parse(text)


def _mini_parse(text):
    """evaluate the small fixed COMPAT strings with the model (tokens: names, ^int, * / juxtaposition, parentheses)"""
    import re
    toks = re.findall(r'-?\d+|[A-Za-z]+|[()*/^]', text)
    pos = [0]

    def peek():
        return toks[pos[0]] if pos[0] < len(toks) else None

    def take():
        t = peek()
        pos[0] += 1
        return t

    def base():
        t = take()
        if t == '(':
            v = ex()
            assert take() == ')'
            return v
        if t.lstrip('-').isdigit():
            return U.Q(F(int(t)))
        return U.lookup(t)

    def fac():
        v = base()
        if peek() == '^':
            take()
            v = v.pow(F(int(take())))
        return v

    def ex():
        v = fac()
        while peek() is not None and peek() != ')':
            if peek() in '*/':
                op = take()
                w = fac()
                v = v * w if op == '*' else v / w
            else:
                v = v * fac()
        return v
    r = ex()
    assert pos[0] == len(toks), text
    return r


def check_conv(ctx, case):
    m = _pg()
    qt, ut, x = case['q'], case['u'], case['x']
    if not case.get('qt') and isinstance(x, (int, float)) and (int(abs(x)) % 3 == 0):
        check_array_conversion(ctx, case)
    try:
        mq = model_of_text(qt, case.get('qt'))
        mu = model_of_text(ut, case.get('ut'))
    except (ZeroDivisionError, ValueError, OverflowError):
        ctx.event('conv:out-of-domain')
        return
    if mq.dimensionless() or mu.dimensionless() or mq.v == 0 or mu.v == 0:
        ctx.event('conv:out-of-domain-dimensionless')
        return
    names = (_names_in(case['qt']) + _names_in(case['ut'])) if 'qt' in case else \
        __import__('re').findall(r'[A-Za-z]+', qt + ' ' + ut)
    if any(_name_broken(n) for n in names):
        ctx.event('conv:contains-known-wrong-name')
        return
    compatible = (mq.d == mu.d)
    ctx.case(nontrivial=(qt != ut), key=[qt, ut, x], sample=dict(q=qt, u=ut, x=x, compatible=compatible))
    ctx.event('conv:compatible' if compatible else 'conv:incompatible')
    ctx.event('conv:x=0' if x == 0 else 'conv:x!=0')

    def close(a, b, tol=1e-12):
        return isinstance(a, (int, float)) and not isinstance(a, bool) and abs(a - b) <= tol * max(abs(b), 1e-300)

    try:
        q1 = m['eval_qty'](qt)
        if not hasattr(q1, 'has_units') or not hasattr(q1, 'in_units'):
            # a text with a dimension that comes back as a bare number has lost it
            ctx.fail('conv:text-with-units-is-not-a-quantity', 'eval_qty(%r) -> %r (%s), model dimension %r' % (qt, q1, type(q1).__name__, mq.d))
            return
        r = float(mq.v / mu.v)
        # has_units
        for hu in (q1.has_units(ut), m['has_units'](q1, ut)):
            if hu is not compatible and hu != compatible:
                ctx.fail('conv:has_units', 'has_units(%r, %r) -> %r, model %r' % (qt, ut, hu, compatible))
        # in_units: ratio of magnitudes or UnitsError
        for fn, nm in ((lambda: q1.in_units(ut), 'method'), (lambda: m['in_units'](q1, ut), 'helper')):
            try:
                got = fn()
            except m['UnitsError']:
                if compatible:
                    ctx.fail('conv:in_units-rejects-compatible', 'in_units(%r -> %r) raised UnitsError' % (qt, ut))
                continue
            if not compatible:
                ctx.fail('conv:in_units-accepts-incompatible', 'in_units(%r -> %r) returned %r' % (qt, ut, got))
            elif not close(got, r):
                ctx.fail('conv:in_units-ratio', 'in_units(%r -> %r) = %r, ratio of magnitudes = %r' % (qt, ut, got, r))
        # to_SI_from / from_SI_to
        si = m['to_SI_from'](x, ut)
        if not close(si, x * float(mu.v)) and not (x == 0 and si == 0):
            ctx.fail('conv:to_SI_from', 'to_SI_from(%r, %r) = %r, expected %r' % (x, ut, si, x * float(mu.v)))
        back = m['from_SI_to'](si, ut)
        if not close(back, x) and not (x == 0 and back == 0):
            ctx.fail('conv:SI-roundtrip', 'from_SI_to(to_SI_from(%r, %r)) = %r' % (x, ut, back))
        # with_units there and back, and across compatible units
        w = m['with_units'](x, qt)
        try:
            back = m['in_units'](w, qt)
            if not (close(back, x) or (x == 0 and back == 0)):
                ctx.fail('conv:there-and-back', 'in_units(with_units(%r, %r), same) = %r' % (x, qt, back))
        except Exception as e:
            ctx.fail('conv:there-and-back%s:raises-%s' % (':x=0' if x == 0 else '', type(e).__name__),
                     'in_units(with_units(%r, %r), %r) raises %s: %s' % (x, qt, qt, type(e).__name__, e))
        if compatible and x != 0:
            got = m['in_units'](w, ut)
            if not close(got, x * r, 1e-12):
                ctx.fail('conv:cross-conversion', 'in_units(with_units(%r, %r), %r) = %r, expected %r'
                         % (x, qt, ut, got, x * r))
            back = m['in_units'](m['with_units'](got, ut), qt)
            if not close(back, x, 1e-11):
                ctx.fail('conv:there-and-back', '%r %s -> %s -> back = %r' % (x, qt, ut, back))
    except (m['UnitsError'], m['UnitsParseError']) as e:
        ctx.fail('conv:unexpected-%s' % type(e).__name__, 'q=%r u=%r x=%r: %s' % (qt, ut, x, e))


# -- (4) malformed ---------------------------------------------------------------------------
def _valid_texts():
    return st.one_of(st.sampled_from([s for fam in COMPAT for s in fam] +
                                     ['1/(6.02214179*10^23) mol', '1.660538921*10^-27 kg', '33000 ft lbf/min',
                                      '8.314472 J/(mol K)', '2.54 cm', 'm^(-2)', 'm^0.5 s']),
                     tree_strategy('quick').filter(lambda c: _in_domain(c['tree'])).map(
                         lambda c: U.render_expr(c['tree'])))


def _in_domain(tree):
    try:
        U.eval_expr(tree)
        return True
    except (ZeroDivisionError, ValueError, OverflowError):
        return False


UNKNOWN = ['foo', 'Joule', 'kcals', 'xyz', 'Kelvin', 'mols', 'q', 'kk', 'dak', 'e', 'E', 'T', 'k', 'da', 'Mm2'[:2] + 'x',
           'sec', 'hr', 'gm', 'Hz', 'l', 'ohm', 'Cal', 'nan', 'inf', 'NaN', 'Infinity', 'naN', 'INF']


@st.composite
def malformed_case(draw):
    form = draw(st.sampled_from(['empty', 'unbalanced-open', 'unbalanced-close', 'dangling-op', 'leading-op',
                                 'caret-no-number', 'caret-name', 'two-dots', 'unknown-name', 'illegal-char',
                                 'double-op', 'empty-parens', 'bad-exponent-notation']))
    v = draw(_valid_texts())
    if form == 'empty':
        t = draw(st.sampled_from(['', ' ', '\t', '  \n']))
    elif form == 'unbalanced-open':
        t = '(' + v
    elif form == 'unbalanced-close':
        t = v + ' )'
    elif form == 'dangling-op':
        t = v + draw(st.sampled_from([' *', ' /', '/', '*', ' ^']))
    elif form == 'leading-op':
        t = draw(st.sampled_from(['* ', '/ ', '^ ', '*', '/'])) + v
    elif form == 'caret-no-number':
        t = v + ' * m^'
    elif form == 'caret-name':
        t = v + ' * m^s'
    elif form == 'two-dots':
        t = '1.2.3 ' + v
    elif form == 'unknown-name':
        t = v + ' ' + draw(st.sampled_from([u for u in UNKNOWN if not U.is_known(u)]))
    elif form == 'illegal-char':
        t = v + ' ' + draw(st.sampled_from(['%', '#', '$', '@', '!', '[', '}', ',', ';', '=', '+', '°', 'µ', 'Å']))
    elif form == 'double-op':
        t = v + draw(st.sampled_from([' * * ', ' / / ', ' * / ', '^^'])) + 'm'
    elif form == 'empty-parens':
        t = v + ' ()'
    else:
        t = draw(st.sampled_from(['1e m', '2.5E+ J', '1ee3 kg', '6.02e2.3.1 /mol', '1e-', 'e5 m']))
    return dict(kind='malformed', text=t, form=form)


def check_malformed(ctx, case):
    m = _pg()
    t = case['text']
    ctx.case(nontrivial=True, key=t, sample=case)
    ctx.event('malformed:' + case['form'])
    try:
        r = m['eval_qty'](t)
    except m['UnitsParseError']:
        return
    except Exception as e:
        ctx.fail('malformed:%s:raises-%s' % (case['form'], type(e).__name__),
                 '%r raises %s: %s instead of UnitsParseError' % (t, type(e).__name__, e))
        return
    ctx.fail('malformed:%s:accepted' % case['form'], '%r accepted as %r' % (t, r))


TOKENS = ['*', '/', '^', '(', ')', ' ', 'm', 'kJ', 'mol', '2', '-1', '0.5', '10', 'K', 's', 'dag', 'min', '.', '-',
          'x', '1e3', '^2', '()', ' ^ ', '^-', '^(2)', '^(', '0']


@st.composite
def mutated_case(draw):
    import re
    v = draw(_valid_texts())
    toks = re.findall(r'-?[.\d]+|[a-zA-Z]+|\s+|.', v)
    n = draw(st.integers(1, 2))
    for _ in range(n):
        if not toks:
            break
        i = draw(st.integers(0, len(toks) - 1))
        how = draw(st.sampled_from(['delete', 'replace', 'insert', 'duplicate', 'swap']))
        if how == 'delete':
            del toks[i]
        elif how == 'replace':
            toks[i] = draw(st.sampled_from(TOKENS))
        elif how == 'insert':
            toks.insert(i, draw(st.sampled_from(TOKENS)))
        elif how == 'duplicate':
            toks.insert(i, toks[i])
        elif i + 1 < len(toks):
            toks[i], toks[i + 1] = toks[i + 1], toks[i]
    return dict(kind='mutated', text=''.join(toks), base=v)


def check_mutated(ctx, case):
    m = _pg()
    t = case['text']
    try:
        r = m['eval_qty'](t)
    except m['UnitsParseError']:
        ctx.case(nontrivial=True, key=t, sample=dict(text=t, outcome='UnitsParseError'))
        ctx.event('mutated:rejected')
        return
    except (ZeroDivisionError, OverflowError):
        ctx.event('mutated:out-of-domain-arithmetic')
        return
    except Exception as e:
        import re
        if isinstance(e, AssertionError) and 'j' in str(e) or 'complex' in str(e):
            ctx.event('mutated:out-of-domain-complex')
            return
        names = re.findall(r'[A-Za-z]+', t)
        via = ':via-known-wrong-name' if any(U.is_known(n) and _name_broken(n) for n in names) else ''
        ctx.fail('mutated:raises-%s%s' % (type(e).__name__, via), '%r raises %s: %s' % (t, type(e).__name__, e))
        ctx.case(nontrivial=True, key=t)
        return
    val, exps, kind = unpack(r)
    ctx.case(nontrivial=(t != case['base']), key=t, sample=dict(text=t, outcome=kind))
    ctx.event('mutated:accepted')
    if isinstance(val, complex):
        ctx.event('mutated:out-of-domain-complex')
        return
    if exps is None or not isinstance(val, (int, float)):
        ctx.fail('mutated:result-type', '%r -> %r' % (t, r))
    elif isinstance(val, float) and not math.isfinite(val):        # (a whole number of any size is finite)
        ctx.event('mutated:out-of-domain-nonfinite')


def check_any(ctx, case):
    return {'name': check_name, 'stacked': check_stacked, 'tree': check_tree, 'conv': check_conv, 'malformed': check_malformed,
            'mutated': check_mutated, 'fractional': lambda c, k: check_fractional(c, k)}[case['kind']](ctx, case)


def run_atheris(ctx, fam, n):
    from vlib import fuzzing
    m = _pg()

    def recheck(text):
        out = []
        try:
            r = m['eval_qty'](text)
        except m['UnitsParseError']:
            return out
        except (ZeroDivisionError, OverflowError):
            return out
        except Exception as e:
            if 'complex' in str(e) or 'j)' in str(e):
                return out
            return [('fuzz:raises-%s' % type(e).__name__, '%r raises %s: %s' % (text, type(e).__name__, e))]
        val, exps, kind = unpack(r)
        if exps is None and not isinstance(val, complex):
            out.append(('fuzz:result-type:%s' % kind, '%r -> %r' % (text, r)))
            return out
        try:
            r2 = m['eval_qty']('(' + text + ')')
            v2, e2, _ = unpack(r2)
            if e2 != exps or not (v2 == val or (isinstance(v2, float) and abs(v2 - val) <= 1e-12 * abs(val)) or (v2 != v2 and val != val)):
                out.append(('fuzz:parenthesised-value-differs', '%r -> %r but (%s) -> %r' % (text, r, text, r2)))
        except m['UnitsParseError']:
            out.append(('fuzz:parenthesised-expression-rejected', '%r accepted as %r but in parentheses rejected' % (text, r)))
        except Exception:
            pass
        return out
    fuzzing.campaign(ctx, 'c10', n, recheck, corpus=['kJ/mol', '8.314472 J/(mol K)', '1/(6.02214179*10^23) mol', 'm^(-2)', 'dag cm^3'], max_len=96)
    ctx.begin('atheris', dict(kind='malformed', text='', form='empty'))
    ctx.case(nontrivial=True, key=['atheris', ctx.shard], sample=dict(family='atheris', note='coverage-guided campaign, see histogram'), evals=0)


def check_text(ctx, case):
    return check_any(ctx, case) if case.get('kind') != 'text' else check_malformed(ctx, dict(kind='malformed', text=case['text'], form='fuzz'))


# -- fractional powers that add up only up to round-off ------------------------------------------------------------------------
FRAC = ['0.1', '0.2', '0.3', '0.7', '0.15', '0.05', '1.1', '2.3', '0.6', '0.9', '0.25', '0.35']


def enum_fractional(tier):
    """m^0.1 m^0.2 converted to m^0.3: the exponents of a product are sums of binary fractions and differ from the directly
    written exponent in the last bit; the quantities are the same (the unit algebra allows for this: compatible)"""
    from decimal import Decimal as D
    for u in ('m', 's', 'kg', 'K', 'mol', 'J', 'cm'):
        for a in FRAC:
            for b in FRAC:
                t = str(D(a) + D(b))
                yield dict(kind='fractional', text='%s^%s %s^%s' % (u, a, u, b), target='%s^%s' % (u, t), ratio=1.0)
                yield dict(kind='fractional', text='2 %s^%s*%s^%s' % (u, a, u, b), target='%s^%s' % (u, t), ratio=2.0)
                r = D(a) * 3 - D(t)
                if r != 0:
                    yield dict(kind='fractional', text='(%s^%s)^3/%s^%s' % (u, a, u, r), target='%s^%s' % (u, t), ratio=1.0)


def check_array_conversion(ctx, case):
    """numbers given as a numpy array (on either side of the unit, and through with_units) convert element by element"""
    import numpy as np
    from pgradd.Units import with_units
    m = _pg()
    a, b = case['q'], case['u']
    xs = np.array([1.0, case['x'] if case['x'] else 2.0, -3.5])
    ctx.case(nontrivial=True, key=['array', a, b, case['x']], sample=dict(quantity_units=a, target=b))
    try:
        ua, ub = m['eval_qty'](a), m['eval_qty'](b)
        scalars = [(float(x) * ua).in_units(b) for x in xs]
    except Exception:
        ctx.event('array-conversion:scalar-path-not-applicable')
        return
    forms = {'array*unit': lambda: xs * ua, 'unit*array': lambda: ua * xs, 'with_units(array)': lambda: with_units(xs, a), 'with_units(list)': lambda: with_units(list(xs), a)}
    for name, mk in forms.items():
        try:
            got = mk().in_units(b)
        except Exception as e:
            ctx.fail('array-conversion:%s:raises-%s' % (name, type(e).__name__), '(%s of %r in %r).in_units(%r) raised %s: %s' % (name, list(xs), a, b, type(e).__name__, str(e)[:120]))
            continue
        ctx.count()
        ctx.event('array-conversion:%s' % name)
        if np.shape(got) != (3,) or any(abs(float(g) - float(w)) > 1e-12 * max(abs(float(w)), 1e-300) for g, w in zip(got, scalars)):
            ctx.fail('array-conversion:%s' % name, '(%s of %r in %r).in_units(%r) = %r, element by element %r' % (name, list(xs), a, b, got, scalars))


def check_fractional(ctx, case):
    m = _pg()
    ctx.case(nontrivial=True, key=[case['text'], case['target']], sample=dict(expression=case['text'], converted_to=case['target']))
    try:
        q = m['eval_qty'](case['text'])
        r = q.in_units(case['target'])
    except Exception as e:
        ctx.fail('fractional-powers:raises-%s' % type(e).__name__, '%r in units of %r raised %s: %s' % (case['text'], case['target'], type(e).__name__, str(e)[:160]))
        return
    ctx.count()
    if isinstance(r, m['Quantity']) or abs(float(r) - case['ratio']) > 1e-12:
        ctx.fail('fractional-powers:conversion', '%r in units of %r = %r, expected the plain number %r' % (case['text'], case['target'], r, case['ratio']))


FAMILIES = [
    Family('names', check_any, enumerate=enum_names),
    Family('fractional-powers', lambda ctx, case: check_fractional(ctx, case), enumerate=enum_fractional),
    Family('names-history', check_any, enumerate=enum_names_history, sharded=False),
    Family('trees', check_any, strategy=tree_strategy, n=(8000, 300000)),
    Family('conversions', check_any, strategy=lambda tier: conversion_case(), n=(4000, 100000)),
    Family('malformed', check_any, strategy=lambda tier: malformed_case(), n=(3000, 60000)),
    Family('mutated', check_any, strategy=lambda tier: mutated_case(), n=(4000, 150000)),
    Family('atheris', check_text, stateful=run_atheris, n=(0, 16 * 400000)),
]
