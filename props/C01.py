"""C01 - Estimate is the exact count-weighted sum of group contributions.

Oracle: reference model = math.fsum(count * constituent value) with the constituent correlations themselves as the
reference (C05 checks those); error-set equality for descriptors without the property set.
"""
import math
import warnings

import numpy as np
from hypothesis import strategies as st

from vlib.core import Family
from vlib import thermogen as TG
from vlib import shipped

PROPERTY = 'C01'
RULE = ('(i) each of the 9 shipped libraries: every unit vector {g:1} (exhaustive) and Hypothesis mappings of 1-12 '
        'descriptors with counts from {ints -3..6, fractions, 0, negatives, floats}, keys as strings or Group objects, '
        'optionally polluted with 1-3 descriptors that have no data (unknown names); on a fresh library object and on '
        'one that decomposed a molecule before; (ii) synthetic in-memory libraries of 2-8 groups, some lacking H, S or '
        'Cp, some entries without the thermochem property set. Temperatures: ends of the common range, reference '
        'temperatures, interior points. Non-trivial = >= 2 descriptors, or a non-unit count, or a polluted mapping. '
        'Distinct = distinct (library, mapping).')
ASSUMPTIONS = ['tolerance 1e-10 * sum|term| + 1e-12 against fsum; G/RT vs H/RT - S/R 1e-12 relative',
               'mappings whose constituent ranges do not intersect are left to C06',
               'libraries with an uncertainty block reject descriptors outside the basis at construction (C20); shipped '
               'bases equal their group sets (C14)']

_m = {}


def _pg():
    if not _m:
        from pgradd.Error import GroupMissingDataError, IncompleteDataError
        from pgradd.GroupAdd.Group import Group
        from pgradd.GroupAdd.Library import GroupLibrary
        import pgradd.ThermoChem  # noqa: registers the 'thermochem' property set
        _m.update(GMDE=GroupMissingDataError, IDE=IncompleteDataError, Group=Group, GroupLibrary=GroupLibrary)
    return _m


PROPS = ['CpoR', 'HoRT', 'SoR', 'GoRT']


def quiet(fn, *a):
    with warnings.catch_warnings():
        warnings.simplefilter('ignore')
        return fn(*a)


def have(g, X):
    if X == 'CpoR':
        return bool(g.ND_Cp_data)
    if X == 'HoRT':
        return g.ND_H_ref is not None
    if X == 'SoR':
        return g.ND_S_ref is not None
    return g.ND_H_ref is not None and g.ND_S_ref is not None


def eff_range(g):
    r = g.get_range()
    if r is not None:
        return (float(r[0]), float(r[1]))
    if g.ND_Cp_data:
        ts = sorted(g.ND_Cp_data)
        return (float(ts[0]), float(ts[-1]))
    return None


def core_check(ctx, lib, keys, counts, pollute, fr, label, as_group=()):
    """keys: names with data; pollute: names without the property set"""
    m = _pg()
    mapping = {}
    for i, (k, c) in enumerate(zip(keys, counts)):
        kk = m['Group'].parse(lib.scheme, k) if (i < len(as_group) and as_group[i]) else k
        mapping[kk] = c
    for i, k in enumerate(pollute):
        mapping[k] = 1 + i
    nontriv = len(keys) >= 2 or bool(pollute) or any(c != 1 for c in counts)
    ctx.case(nontrivial=nontriv, key=[label, keys, counts, pollute],
             sample=dict(library=label, mapping=dict(zip(keys, counts)), without_data=pollute))
    ctx.event('size:%d' % min(len(keys), 12))
    ctx.event('polluted' if pollute else 'clean')
    for c in counts:
        ctx.event('count:' + ('zero' if c == 0 else 'negative' if c < 0 else 'unit' if c == 1 else
                              'integer' if float(c).is_integer() else 'fractional'))
    declared = [lib[k]['thermochem'].get_range() for k in keys]
    declared = [r for r in declared if r is not None]
    if declared and max(r[0] for r in declared) > min(r[1] for r in declared) and not pollute:
        ctx.event('disjoint-ranges(C06)')
        return
    given = dict(mapping)
    try:
        est = lib.Estimate(given, 'thermochem')
    except m['GMDE'] as e:
        got = sorted(str(g) for g in e.groups)
        if not pollute:
            ctx.fail('missing-data-error-on-complete-mapping', '[%s] GroupMissingDataError(%s) although every descriptor has data'
                     % (label, got))
        elif got != sorted(pollute):
            ctx.fail('missing-data-error-wrong-groups', '[%s] error names %s, descriptors without data are %s'
                     % (label, got, sorted(pollute)))
        return
    except Exception as e:
        ctx.fail('estimate-raises:%s' % type(e).__name__, '[%s] Estimate(%s) raised %s: %s'
                 % (label, dict(zip(keys, counts)), type(e).__name__, e))
        return
    if pollute:
        ctx.fail('partial-sum-instead-of-missing-data-error', '[%s] Estimate returned an object although %s have no data'
                 % (label, pollute))
        return
    # an estimate is a value: what the caller does with the mapping object afterwards (re-use for the next molecule, clear)
    # does not reach into it
    for k in list(given)[:-1] or list(given):
        given[k] = given[k] * 3 + 1
    given.pop(next(iter(given)))
    groups = [lib[k]['thermochem'] for k in keys]
    rs = [eff_range(g) for g in groups]
    rs = [r for r in rs if r is not None]
    if rs:
        lo, hi = max(r[0] for r in rs), min(r[1] for r in rs)
        if lo > hi:
            ctx.event('disjoint-ranges(C06)')
            return
        Ts = [lo, hi] + [lo + (hi - lo) * f for f in fr]
    else:
        Ts = [298.15, 300.0, 500.0]
    Ts += [float(g.T_ref) for g in groups[:2] if not rs or lo <= g.T_ref <= hi]
    for X in PROPS:
        complete = all(have(g, X) for g in groups)
        for T in Ts:
            try:
                got = quiet(getattr(est, 'get_' + X), T)
            except m['IDE']:
                if complete:
                    ctx.fail('incomplete-data-error-on-complete-data:%s' % X, '[%s] %s(%r) raised IncompleteDataError'
                             % (label, X, T))
                break
            except Exception as e:
                ctx.fail('evaluation-raises:%s:%s' % (X, type(e).__name__), '[%s] %s(%r) raised %s: %s'
                         % (label, X, T, type(e).__name__, e))
                break
            if not complete:
                missing = [k for k, g in zip(keys, groups) if not have(g, X)]
                ctx.fail('silent-partial-sum:%s' % X, '[%s] %s(%r) = %r although %s have no data for it'
                         % (label, X, T, got, missing))
                break
            try:
                terms = [(c, quiet(getattr(g, 'get_' + X), T)) for c, g in zip(counts, groups)]
            except Exception:
                ctx.event('constituent-evaluation-failed(C05/C14)')
                break
            want = math.fsum(c * v for c, v in terms)
            scale = math.fsum(abs(c * v) for c, v in terms)
            ctx.count()
            if not (isinstance(got, (int, float, np.floating)) and abs(got - want) <= 1e-10 * scale + 1e-12):
                ctx.fail('not-the-weighted-sum:%s' % X, '[%s] %s(%r) = %r, sum of count*group value = %r (terms %s)'
                         % (label, X, T, got, want, terms[:6]))
                break
        else:
            continue
    # the same counts given as numpy scalars (what arithmetic on descriptor tables produces) are the same mapping
    if Ts and all(have(g, 'HoRT') for g in groups):
        mp2 = {k: (np.int64(c) if isinstance(c, int) and not isinstance(c, bool) else np.float64(c)) for k, c in mapping.items()}
        try:
            est2 = lib.Estimate(mp2, 'thermochem')
            a, b = quiet(est.get_HoRT, Ts[0]), quiet(est2.get_HoRT, Ts[0])
            ctx.count()
            ctx.event('numpy-scalar-counts')
            if not (abs(a - b) <= 1e-12 * max(1.0, abs(a))):
                ctx.fail('numpy-scalar-counts-change-the-value', '[%s] HoRT(%r) = %r with Python counts, %r with the same counts as numpy scalars %s'
                         % (label, Ts[0], a, b, dict(zip(keys, counts))))
        except Exception as e:
            ctx.fail('numpy-scalar-counts-raise:%s' % type(e).__name__, '[%s] Estimate with counts as numpy scalars raised %s: %s' % (label, type(e).__name__, e))
    # Cp/R accepts an array of temperatures (the correlations vectorise it): the estimate must be the same weighted sum,
    # element by element, for float and integer arrays alike
    if all(have(g, 'CpoR') for g in groups) and len(Ts) >= 2:
        for arr in (np.array(Ts[:4], dtype=float), np.array([math.ceil(Ts[0]), math.floor(Ts[1])], dtype=int)):
            if arr.dtype.kind == 'i' and not (rs and lo <= arr.min() and arr.max() <= hi):
                continue
            try:
                want = [math.fsum(c * quiet(g.get_CpoR, float(t)) for c, g in zip(counts, groups)) for t in arr]
                scale = [math.fsum(abs(c * quiet(g.get_CpoR, float(t))) for c, g in zip(counts, groups)) for t in arr]
            except Exception:
                ctx.event('constituent-evaluation-failed(C05/C14)')
                break
            try:
                got = quiet(est.get_CpoR, arr)
            except Exception as e:
                ctx.fail('evaluation-raises:CpoR-array:%s' % type(e).__name__, '[%s] CpoR(%r) raised %s: %s' % (label, arr, type(e).__name__, e))
                break
            ctx.count()
            ctx.event('array-temperatures:%s' % arr.dtype.kind)
            ok = isinstance(got, np.ndarray) and got.shape == arr.shape and all(
                abs(float(a) - w) <= 1e-10 * sc + 1e-12 for a, w, sc in zip(got, want, scale))
            if not ok:
                ctx.fail('not-the-weighted-sum:CpoR-array', '[%s] CpoR(%r) = %r, element-wise sums of count*group value = %r'
                         % (label, arr, got, want))
                break
    # a request relative to the elements in between leaves the plain values as they were (the estimate keeps no memory of it)
    if all(have(g, 'SoR') for g in groups) and Ts:
        try:
            s_before = quiet(est.get_SoR, Ts[0])
            try:
                quiet(est.get_SoR, Ts[0], True)
                quiet(est.get_GoRT, Ts[0], True)
            except Exception:
                ctx.event('elemental-request-not-possible-here')
            s_after = (quiet(est.get_SoR, Ts[0]), quiet(est.get_SoR, Ts[0], False))
            ctx.count()
            if s_after[0] != s_before or s_after[1] != s_before:
                ctx.fail('value-changed-by-an-earlier-elemental-request', '[%s] SoR(%r) = %r, after a request with S_elements=True: %r (and with S_elements=False %r)'
                         % (label, Ts[0], s_before, s_after[0], s_after[1]))
        except m['IDE']:
            pass
    # G = H - S
    if all(have(g, 'GoRT') for g in groups):
        for T in Ts[:3]:
            try:
                g_, h_, s_ = quiet(est.get_GoRT, T), quiet(est.get_HoRT, T), quiet(est.get_SoR, T)
            except Exception:
                break
            if abs(g_ - (h_ - s_)) > 1e-12 * max(1.0, abs(h_), abs(s_)):
                ctx.fail('G-not-H-minus-S', '[%s] GoRT(%r) = %r, HoRT - SoR = %r' % (label, T, g_, h_ - s_))
                break


# -- shipped libraries -------------------------------------------------------------------------------
def usable(L):
    """names of a shipped library that carry a thermochem property set"""
    lib = shipped.lib(L)
    return [k for k in shipped.group_names(L) if 'thermochem' in lib[k]]


def enum_unit(tier):
    for L in shipped.LIBS:
        for k in shipped.group_names(L):
            yield dict(kind='shipped', lib=L, keys=[k], counts=[1], pollute=[], fr=[0.5], fresh=False)


UNKNOWN = ['Xx(Yy)2', 'C(Zz)(H)3', 'NotAGroup', 'C(C)(H)7', 'Q', 'AlkaneGaucheX']


@st.composite
def shipped_case(draw):
    L = draw(st.sampled_from(shipped.LIBS))
    names = usable(L)
    n = draw(st.integers(1, 12))
    keys = draw(st.lists(st.sampled_from(names), min_size=1, max_size=n, unique=True))
    counts = [draw(TG.counts()) for _ in keys]
    pollute = []
    if draw(st.integers(0, 3)) == 0:
        pollute = draw(st.lists(st.sampled_from(UNKNOWN), min_size=1, max_size=3, unique=True))
    return dict(kind='shipped', lib=L, keys=keys, counts=counts, pollute=pollute,
                fr=[draw(st.floats(0.01, 0.99)) for _ in range(3)], fresh=draw(st.booleans()),
                as_group=[draw(st.booleans()) and shipped.is_group(L, k) for k in keys])


_fresh = {}


def check_shipped(ctx, case):
    L = case['lib']
    if case.get('fresh'):
        # a library object that never decomposed anything
        if L not in _fresh:
            _fresh[L] = shipped.fresh_lib(L)
        lib = _fresh[L]
        ctx.event('library:fresh')
    else:
        lib = shipped.lib(L)
        if getattr(lib, 'name', None) is None:
            try:
                lib.GetDescriptors('C')
            except Exception:
                lib.name = 'C'
        ctx.event('library:used-before')
    keys = [k for k in case['keys']]
    if any('thermochem' not in lib[k] for k in keys):
        # unit vectors enumerate every name; the ones without the property set must be reported as missing
        missing = [k for k in keys if 'thermochem' not in lib[k]]
        core_check(ctx, lib, [k for k in keys if k not in missing], [c for k, c in zip(keys, case['counts']) if k not in missing],
                   missing + case['pollute'], case['fr'], L)
        return
    core_check(ctx, lib, keys, case['counts'], case['pollute'], case['fr'], L, case.get('as_group', ()))
    ctx.event('library:%s' % L)


# -- synthetic libraries -------------------------------------------------------------------------------
@st.composite
def synthetic_case(draw):
    n = draw(st.integers(2, 8))
    # same-ish ranges so that the intersection is usually non-empty: draw one spec and vary it
    specs = []
    for i in range(n):
        kind = draw(st.sampled_from(['full', 'full', 'full', 'no-S', 'no-H', 'no-Cp', 'empty', 'alias']))
        if kind == 'empty':
            specs.append(None)
            continue
        if kind == 'alias' and i > 0:
            j = draw(st.integers(0, i - 1))
            while isinstance(specs[j], dict) and 'alias' in specs[j]:
                j = specs[j]['alias']
            specs.append(dict(alias=j))
            continue
        if kind == 'alias':
            kind = 'full'
        sp = draw(TG.group_spec(cp='no' if kind == 'no-Cp' else 'yes', H='no' if kind == 'no-H' else 'yes',
                                S='no' if kind == 'no-S' else 'yes'))
        specs.append(sp)
    idx = draw(st.lists(st.integers(0, n - 1), min_size=1, max_size=n, unique=True))
    counts = [draw(TG.counts()) for _ in idx]
    extra = draw(st.lists(st.sampled_from(['Unknown1', 'Unknown2']), max_size=1)) if draw(st.integers(0, 4)) == 0 else []
    return dict(kind='synthetic', specs=specs, idx=idx, counts=counts, extra=extra,
                fr=[draw(st.floats(0.01, 0.99)) for _ in range(3)])


def check_synthetic(ctx, case):
    specs = case['specs']
    lib = TG.build_library(specs)
    if any(isinstance(s, dict) and 'alias' in s for s in (specs[i] for i in case['idx'])):
        ctx.event('synthetic:two-names-share-one-correlation-object')
    specs = [specs[s['alias']] if isinstance(s, dict) and 'alias' in s else s for s in specs]
    keys, counts, pollute = [], [], list(case['extra'])
    for i, c in zip(case['idx'], case['counts']):
        if specs[i] is None:
            pollute.append('G%d' % i)
        else:
            keys.append('G%d' % i)
            counts.append(c)
    ctx.event('synthetic:lacking=%s' % sorted(set(
        ('empty' if s is None else 'no-H' if s['H'] is None else 'no-S' if s['S'] is None else
         'no-Cp' if not s['Ts'] else 'full') for s in (specs[i] for i in case['idx']))))
    core_check(ctx, lib, keys, counts, pollute, case['fr'], 'synthetic')
    sibling_check(ctx, lib, keys, counts, pollute)


def sibling_check(ctx, lib, keys, counts, pollute):
    """data merged into ONE library object must not make another library object return a sum for descriptors it was never
    given: libraries created empty, and two libraries created from the same contents mapping"""
    m = _pg()
    if not keys:
        return
    GL = m['GroupLibrary']
    a, b = GL(None), GL(None)
    contents = {k: dict(lib[k]) for k in keys[1:]}
    c, d = GL(None, contents), GL(None, contents)
    try:
        a.Update(lib)        # into a library created empty: nothing to conflict with
        c.Update(lib)        # into a library holding some of the very same correlation objects
    except Exception as e:
        ctx.fail('sibling-library:update-raises:%s' % type(e).__name__, 'Update() of a library created empty / from a part of the same '
                 'data raised %s: %s' % (type(e).__name__, e))
        return
    mapping = dict(zip(keys, counts))
    # the library that WAS given the data has it (it was created empty, in memory, and filled by Update)
    if not pollute:
        try:
            a.Estimate(mapping, 'thermochem')
        except m['GMDE'] as e:
            ctx.fail('sibling-library:update-gave-no-data', 'GroupLibrary(None).Update(library) and then Estimate(%s): missing data for %s' % (mapping, sorted(str(g) for g in e.groups)))
        except Exception:
            pass
    for name, other, lacking in (('created-empty', b, sorted(keys)), ('created-from-the-same-mapping', d, [keys[0]])):
        ctx.count()
        try:
            other.Estimate(mapping, 'thermochem')
        except m['GMDE'] as e:
            got = sorted(str(g) for g in e.groups)
            if got != lacking:
                ctx.fail('sibling-library:missing-data-error-wrong-groups', '[%s] error names %s, the library lacks %s' % (name, got, lacking))
            continue
        except Exception as e:
            ctx.fail('sibling-library:estimate-raises:%s' % type(e).__name__, '[%s] %s: %s' % (name, type(e).__name__, e))
            continue
        ctx.fail('sibling-library:sum-over-data-it-was-never-given', '[library %s, after Update() of ANOTHER library object] Estimate(%s) '
                 'returned an object although this library has no data for %s' % (name, mapping, lacking))
    ctx.event('sibling-libraries-checked')


def check_any(ctx, case):
    return {'shipped': check_shipped, 'synthetic': check_synthetic}[case['kind']](ctx, case)


FAMILIES = [
    Family('unit-vectors', check_any, enumerate=enum_unit),
    Family('shipped', check_any, strategy=lambda tier: shipped_case(), n=(2500, 80000)),
    Family('synthetic', check_any, strategy=lambda tier: synthetic_case(), n=(1500, 60000)),
]
