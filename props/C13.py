"""C13 - Merging library files is a conflict-checked, order-free union.

Oracles: (files) reference model = the un-split data: a group's data are split over 1-4 files arranged in a generated
include tree; whatever the order and nesting, the loaded library must hold exactly the union; an injected conflict
must raise ReadOnlyDataError (or, with overwrite, the later value wins); two spellings of one group in one file
must be rejected.  (histories) a Hypothesis RuleBasedStateMachine over ThermochemGroup objects against a dict-union
model with failure atomicity and idempotence.
"""
import itertools
import math
import os
import warnings

import hypothesis
from hypothesis import strategies as st
from hypothesis.stateful import RuleBasedStateMachine, rule, precondition, invariant, initialize, run_state_machine_as_test

from vlib.core import Family, hyp_settings
from vlib import libgen as LG

PROPERTY = 'C13'
RULE = ('files: one group (T_ref, H, S, 0-6 Cp points, range; incl. zero values) with every datum assigned to a non-empty '
        'subset of 1-4 files, a generated include tree (flat / chain / nested / diamond) and include order; variants clean, '
        'duplicate datum, one injected conflicting value, one group under two spellings, range-only file; plus '
        'Update(lib, overwrite=True/False) between two separately loaded libraries. histories: state machine with rules '
        'new / update(a,b,overwrite) / copy / evaluate / update-twice over ThermochemGroup objects. Non-trivial = data of the '
        'group come from >= 2 files, or the history contains a rejected update followed by an evaluation. Distinct = distinct '
        '(split, tree, variant) or distinct rule sequences.')
ASSUMPTIONS = ['all files of one scenario share one reference temperature (the property says so)',
               'every file fragment is a loadable correlation on its own: a fragment with Cp points also carries the range',
               'values compared at 1e-12 relative (merging re-derives H through (H*T)/T); Cp table keys and values exact']

_m = {}


def _pg():
    if not _m:
        from pgradd.GroupAdd.Library import GroupLibrary
        from pgradd.ThermoChem import ThermochemGroup
        from pgradd.Error import ReadOnlyDataError
        _m.update(Lib=GroupLibrary, Group=ThermochemGroup, RODE=ReadOnlyDataError)
    return _m


VALS = st.one_of(st.just(0.0), st.integers(-30, 30).map(float), st.floats(-200, 200, allow_nan=False),
                 st.floats(1e-4, 1e-2))
SPELL = [('C(C)(H)3', ['C(C)(H)3', 'C(H)3(C)', 'C(H)(H)(H)(C)', 'C(H)2(C)(H)']),
         ('C(C)2(H)2', ['C(C)2(H)2', 'C(H)2(C)2', 'C(C)(H)(C)(H)']),
         ('O(C)(H)', ['O(C)(H)', 'O(H)(C)'])]


@st.composite
def files_case(draw):
    ncp = draw(st.sampled_from([0, 1, 2, 3, 4, 6]))
    Ts = [300.0 + 100.0 * i for i in range(ncp)]
    T_ref = draw(st.sampled_from([298.15, 300.0] + Ts))
    H = draw(st.one_of(st.none(), VALS))
    S = draw(st.one_of(st.none(), VALS))
    cps = [draw(VALS) for _ in Ts]
    rng = [min([T_ref] + Ts) - draw(st.sampled_from([0.0, 50.0])), max([T_ref] + Ts) + draw(st.sampled_from([0.0, 700.0]))]
    has_range = bool(ncp) or draw(st.booleans())
    nfiles = draw(st.sampled_from([1, 2, 2, 3, 3, 4, 4, 5, 5]))      # 5 = an include-only root plus four data files
    data = []                      # (kind, key, value)
    if H is not None:
        data.append(['H', None, H])
    if S is not None:
        data.append(['S', None, S])
    for T, c in zip(Ts, cps):
        data.append(['cp', T, c])
    if has_range:
        data.append(['range', None, rng])
    if not data:
        data.append(['H', None, 1.5])
        H = 1.5
    assign = []
    first = 1 if nfiles == 5 else 0
    for d in data:
        sub = draw(st.lists(st.integers(first, nfiles - 1), min_size=1, max_size=nfiles - first, unique=True))
        assign.append(sorted(sub))
    # include tree: parent of file i (i >= 1) among earlier files; file 0 is library.yaml
    parent = [None] + [draw(st.integers(0, i - 1)) for i in range(1, nfiles)]
    if nfiles == 5 and draw(st.booleans()):
        parent = [None, 0, 0, 1, 2]          # two branches, each with a file of its own below it
    child_order = draw(st.permutations(range(1, nfiles))) if nfiles > 1 else []
    extra_edge = None
    if nfiles >= 3 and draw(st.integers(0, 3)) == 0:
        a = draw(st.integers(1, nfiles - 1))
        # a second parent that is not a descendant of a (keeps the include graph acyclic): only earlier-numbered files
        b = draw(st.integers(0, a - 1))
        if b != parent[a]:
            extra_edge = [b, a]
    variant = draw(st.sampled_from(['clean', 'clean', 'conflict', 'two-spellings', 'api-overwrite', 'api-conflict',
                                    'range-own-file']))
    if variant == 'range-own-file':
        # the validity range is given in a file of its own (only T_ref and range), the values elsewhere
        variant = 'clean'
        if nfiles >= 2:
            data = [d for d in data if d[0] in ('H', 'S')] or [['H', None, 2.5]]
            fr = draw(st.integers(0, nfiles - 1))
            others = [f for f in range(nfiles) if f != fr]
            assign = [sorted(draw(st.lists(st.sampled_from(others), min_size=1, max_size=len(others), unique=True))) for _ in data]
            data.append(['range', None, [T_ref - 48.15, T_ref + 700.0]])
            assign.append([fr])
    spell = draw(st.sampled_from(SPELL))
    names = [draw(st.sampled_from(spell[1])) for _ in range(nfiles)]
    conflict = None
    if variant in ('conflict', 'api-overwrite', 'api-conflict'):
        cand = [i for i, d in enumerate(data) if d[0] != 'range']
        if not cand:
            variant = 'clean'
        else:
            i = draw(st.sampled_from(cand))
            delta = draw(st.sampled_from([1.0, -0.5, 1e-3, 7.25]))
            f = draw(st.integers(0, nfiles - 1)) if nfiles > 1 else 0
            conflict = [i, f, delta]
    return dict(kind='files', T_ref=T_ref, data=data, assign=assign, nfiles=nfiles, parent=parent,
                child_order=list(child_order), extra_edge=extra_edge, variant=variant, names=names, canon=spell[0],
                conflict=conflict, root_holds_data=draw(st.booleans()), subdirs=draw(st.booleans()) or (nfiles == 5 and draw(st.booleans())))


def fragment(case, f, override=None):
    """abstract data of the group as file f sees it; None if the file has no datum for it"""
    g = dict(T_ref=case['T_ref'], H=None, S=None, cp=[], range=None)
    any_ = False
    rng = None
    for (kind, key, val), files in zip(case['data'], case['assign']):
        if kind == 'range':
            rng = val
        if f not in files:
            continue
        any_ = True
        if kind == 'H':
            g['H'] = val
        elif kind == 'S':
            g['S'] = val
        elif kind == 'cp':
            g['cp'].append([key, val])
        else:
            g['range'] = val
    if override:
        kind, key, val = override
        any_ = True
        if kind == 'H':
            g['H'] = val
        elif kind == 'S':
            g['S'] = val
        else:
            g['cp'] = [p for p in g['cp'] if p[0] != key] + [[key, val]]
    if g['cp'] and g['range'] is None:
        g['range'] = rng                 # a fragment with Cp points must be loadable on its own
    return g if any_ else None


ND = dict(H=('nd',), S=('nd',), Cp=('nd',), T=('explicit', 'K'))


def write_tree(tl, case, frags, names):
    n = case['nfiles']
    children = {i: [] for i in range(n)}
    for c in case['child_order']:
        children[case['parent'][c]].append(c)
    if case['extra_edge']:
        children[case['extra_edge'][0]].append(case['extra_edge'][1])
    fn = ['library.yaml'] + ['part%d.yaml' % i for i in range(1, n)]
    rel = {}                      # (parent, child) -> include string as written in the parent
    if case.get('subdirs'):
        # files live in sub-directories; files at the same depth of different branches carry the SAME relative name
        # (d1/part.yaml and d2/part.yaml each include their own 'more2.yaml'), includes are relative to the including file
        depth = {0: 0}
        for i in range(1, n):
            depth[i] = depth[case['parent'][i]] + 1
        for i in range(1, n):
            par = case['parent'][i]
            if par == 0:
                fn[i] = 'd%d/part.yaml' % i
            else:
                fn[i] = os.path.join(os.path.dirname(fn[par]), 'more%d_%d.yaml' % (depth[i], sum(1 for j in range(1, i) if case['parent'][j] == par)))
        for par in range(n):
            for c in children[par]:
                rel[(par, c)] = os.path.relpath(fn[c], os.path.dirname(fn[par]) or '.')
    for i in range(n):
        groups = {}
        if frags[i] is not None:
            if isinstance(frags[i], list):
                for nm, g in frags[i]:
                    groups[nm] = g
            else:
                groups[names[i]] = frags[i]
        if i == 0:
            groups['O(C)2'] = dict(T_ref=298.15, H=-3.25, S=4.5, cp=[[300.0, 1.0], [500.0, 2.0]], range=[298.0, 1000.0])
        tl.write(fn[i], LG.render_file(groups, lambda nm: ND, include=[rel.get((i, c), fn[c]) for c in children[i]]))
    return fn


def expected(case):
    g = dict(T_ref=case['T_ref'], H=None, S=None, cp={}, range=None)
    for kind, key, val in case['data']:
        if kind == 'H':
            g['H'] = val
        elif kind == 'S':
            g['S'] = val
        elif kind == 'cp':
            g['cp'][key] = val
        else:
            g['range'] = tuple(val)
    return g


def near(a, b, tol=1e-12):
    return abs(a - b) <= tol * max(abs(a), abs(b)) + 1e-300


def compare_group(ctx, got, want, label, tag):
    """got: ThermochemGroup, want: expected dict"""
    m = _pg()
    for attr, key in (('ND_H_ref', 'H'), ('ND_S_ref', 'S')):
        a, b = getattr(got, attr), want[key]
        if (a is None) != (b is None):
            ctx.fail('%s:%s-%s%s' % (tag, key, 'lost' if a is None else 'invented', ':zero-valued' if (a == 0 or b == 0) else ''),
                     '[%s] %s is %r, the union of the files has %r' % (label, attr, a, b))
        elif a is not None and not near(a, b):
            ctx.fail('%s:%s-value' % (tag, key), '[%s] %s is %r, the union of the files has %r' % (label, attr, a, b))
    a = dict((float(k), float(v)) for k, v in (got.ND_Cp_data or {}).items())
    if a != want['cp']:
        ctx.fail('%s:Cp-table' % tag, '[%s] Cp table %r, union of the files %r' % (label, a, want['cp']))
    r = got.get_range()
    if (r is None) != (want['range'] is None) or (r is not None and (float(r[0]), float(r[1])) != tuple(want['range'])):
        ctx.fail('%s:range' % tag, '[%s] range %r, union of the files %r' % (label, r, want['range']))
    if not near(got.T_ref, want['T_ref']):
        ctx.fail('%s:T_ref' % tag, '[%s] T_ref %r vs %r' % (label, got.T_ref, want['T_ref']))
    # evaluation grid against a correlation built directly from the un-split data
    try:
        ref = m['Group'](want['H'], want['S'], want['cp'], want['T_ref'], want['range'])
    except Exception:
        return
    lo, hi = want['range'] if want['range'] else (want['T_ref'], want['T_ref'])
    for T in sorted(set([lo, hi, want['T_ref'], 0.5 * (lo + hi)] + list(want['cp']))):
        for X, need in (('HoRT', want['H'] is not None), ('SoR', want['S'] is not None), ('CpoR', bool(want['cp']))):
            if not need:
                continue
            with warnings.catch_warnings():
                warnings.simplefilter('ignore')
                try:
                    x, y = getattr(got, 'get_' + X)(T), getattr(ref, 'get_' + X)(T)
                except Exception as e:
                    ctx.fail('%s:evaluation-raises:%s' % (tag, type(e).__name__), '[%s] %s(%r): %s' % (label, X, T, e))
                    return
            ctx.count()
            if not near(x, y, 1e-9) and abs(x - y) > 1e-9:
                ctx.fail('%s:evaluation-differs:%s' % (tag, X), '[%s] %s(%r) = %r, un-split data give %r' % (label, X, T, x, y))
                return


def check_files(ctx, case):
    m = _pg()
    n = case['nfiles']
    variant = case['variant']
    want = expected(case)
    frags = [fragment(case, f) for f in range(n)]
    holders = [f for f in range(n) if frags[f] is not None]
    tree = 'single-file' if n == 1 else ('diamond' if case['extra_edge'] else
                                        'flat' if all(p in (None, 0) for p in case['parent']) else
                                        'chain' if all(case['parent'][i] == i - 1 for i in range(1, n)) else 'nested')
    zero = any(d[2] == 0 for d in case['data'] if d[0] != 'range')
    rangeonly = any(fr is not None and fr['H'] is None and fr['S'] is None and not fr['cp'] for fr in frags)
    ctx.case(nontrivial=len(holders) >= 2, key=[case],
             sample=dict(files=n, tree=tree, variant=variant, split={str(d[:2]): a for d, a in zip(case['data'], case['assign'])}))
    ctx.event('files:%d' % n)
    ctx.event('tree:%s' % tree)
    ctx.event('variant:%s' % variant)
    ctx.event('zero-valued-datum' if zero else 'no-zero-datum')
    if rangeonly:
        ctx.event('range-only-file')
    names = case['names']
    label = '%s/%s/%d files' % (variant, tree, n)

    def load(tl):
        with warnings.catch_warnings():
            warnings.simplefilter('ignore')
            return m['Lib'].Load(tl.path())

    if variant in ('clean',):
        with LG.TempLib() as tl:
            write_tree(tl, case, frags, names)
            try:
                lib = load(tl)
            except Exception as e:
                ctx.fail('clean-load-fails:%s%s' % (type(e).__name__, ':zero-datum' if zero else ''),
                         '[%s] consistent files failed to load: %s: %s' % (label, type(e).__name__, str(e)[:300]))
                return
        g = lib[case['canon']].get('thermochem')
        if g is None:
            ctx.fail('group-lost', '[%s] group %s missing after load' % (label, case['canon']))
            return
        compare_group(ctx, g, want, label, 'union')
        ctrl = lib['O(C)2'].get('thermochem')
        compare_group(ctx, ctrl, dict(T_ref=298.15, H=-3.25, S=4.5, cp={300.0: 1.0, 500.0: 2.0}, range=(298.0, 1000.0)),
                      label, 'bystander-group')
        return
    if variant == 'conflict':
        i, f, delta = case['conflict']
        kind, key, val = case['data'][i]
        already = f in case['assign'][i]
        if already and len(case['assign'][i]) == 1:
            # the only holder: changing its value is not a conflict; put the conflicting value into another file if any
            if n == 1:
                ctx.event('conflict:not-expressible')
                return
            f = (f + 1) % n
        frags2 = list(frags)
        frags2[f] = fragment(case, f, override=(kind, key, val + delta))
        with LG.TempLib() as tl:
            write_tree(tl, case, frags2, names)
            try:
                lib = load(tl)
            except m['RODE']:
                ctx.event('conflict:rejected')
                return
            except Exception as e:
                ctx.fail('conflict-wrong-exception:%s' % type(e).__name__, '[%s] conflicting %s raised %s: %s' % (label, kind, type(e).__name__, str(e)[:200]))
                return
        ctx.fail('conflict-accepted:%s%s' % (kind, ':zero-valued' if (val == 0 or val + delta == 0) else ''),
                 '[%s] two different values (%r, %r) for %s(%s) in different files were merged silently' % (label, val, val + delta, kind, key))
        return
    if variant == 'two-spellings':
        sp = [s for s in dict(SPELL)[case['canon']]]
        if len(sp) < 2 or frags[0] is None:
            ctx.event('two-spellings:not-expressible')
            return
        a, b = sp[0], sp[1]
        g = frags[0]
        ga = dict(g, S=None)
        gb = dict(g, H=None)
        frags2 = list(frags)
        frags2[0] = [(a, ga), (b, gb)]
        with LG.TempLib() as tl:
            write_tree(tl, case, frags2, names)
            try:
                lib = load(tl)
            except Exception:
                ctx.event('two-spellings:rejected')
                return
        ctx.fail('two-spellings-accepted', '[%s] one file defines the group as %r and as %r and loaded silently' % (label, a, b))
        return
    # api variants: two separately loaded libraries, Update with and without overwrite
    i, f, delta = case['conflict']
    kind, key, val = case['data'][i]
    gA = expected(case)
    A = dict(T_ref=gA['T_ref'], H=gA['H'], S=gA['S'], cp=[[t, c] for t, c in sorted(gA['cp'].items())], range=list(gA['range']) if gA['range'] else None)
    B = dict(A, cp=[list(p) for p in A['cp']])
    if kind == 'H':
        B['H'] = val + delta
    elif kind == 'S':
        B['S'] = val + delta
    else:
        B['cp'] = [[t, (c + delta if t == key else c)] for t, c in B['cp']]
    with LG.TempLib() as ta, LG.TempLib() as tb:
        ta.write('library.yaml', LG.render_file({names[0]: A}, lambda nm: ND))
        tb.write('library.yaml', LG.render_file({names[-1]: B}, lambda nm: ND))
        la, lb = load(ta), load(tb)
    before = snapshot(la[case['canon']]['thermochem'])
    if variant == 'api-conflict':
        try:
            la.Update(lb)
        except m['RODE']:
            after = snapshot(la[case['canon']]['thermochem'])
            if after != before:
                ctx.fail('rejected-merge-changed-target', '[%s] Update raised ReadOnlyDataError but the target changed: %r -> %r' % (label, before, after))
            ctx.event('api-conflict:rejected')
            return
        except Exception as e:
            ctx.fail('conflict-wrong-exception:%s' % type(e).__name__, '[%s] Update raised %s: %s' % (label, type(e).__name__, e))
            return
        ctx.fail('conflict-accepted:%s%s' % (kind, ':zero-valued' if (val == 0 or val + delta == 0) else ''),
                 '[%s] Update(lib) merged two different values (%r, %r) for %s(%s) silently' % (label, val, val + delta, kind, key))
        return
    # a third library that does not have the group yet takes it from lb, then is overwritten from la:
    # lb must not notice (merged data are copies, not shared objects)
    wantA = dict(T_ref=A['T_ref'], H=A['H'], S=A['S'], cp=dict((t, c) for t, c in A['cp']), range=tuple(A['range']) if A['range'] else None)
    wantB0 = dict(T_ref=B['T_ref'], H=B['H'], S=B['S'], cp=dict((t, c) for t, c in B['cp']), range=tuple(B['range']) if B['range'] else None)
    try:
        E = m['Lib'](la.scheme, {})
        E.Update(lb)
        E.Update(la, overwrite=True)
        compare_group(ctx, E[case['canon']]['thermochem'], wantA, label, 'third-library-overwritten')
        compare_group(ctx, lb[case['canon']]['thermochem'], wantB0, label, 'source-changed-through-third-library')
    except Exception as e:
        ctx.fail('third-library-update-raises:%s' % type(e).__name__, '[%s] %s: %s' % (label, type(e).__name__, e))
    # the same between two libraries that were put together in memory (neither has a file path)
    try:
        M1, M2 = m['Lib'](la.scheme), m['Lib'](la.scheme)        # (created empty by the constructor's own default)
        M1.Update(lb)
        M2.Update(la)
        M2.Update(M1, overwrite=True)
        compare_group(ctx, M2[case['canon']]['thermochem'], wantB0, label, 'in-memory-libraries-overwrite')
        compare_group(ctx, M1[case['canon']]['thermochem'], wantB0, label, 'in-memory-libraries-source')
    except Exception as e:
        ctx.fail('in-memory-update-raises:%s' % type(e).__name__, '[%s] %s: %s' % (label, type(e).__name__, e))
    try:
        la.Update(lb, overwrite=True)
    except Exception as e:
        ctx.fail('overwrite-raises:%s' % type(e).__name__, '[%s] Update(lib, overwrite=True) raised %s: %s' % (label, type(e).__name__, e))
        return
    wantB = dict(T_ref=B['T_ref'], H=B['H'], S=B['S'], cp=dict((t, c) for t, c in B['cp']), range=tuple(B['range']) if B['range'] else None)
    compare_group(ctx, la[case['canon']]['thermochem'], wantB, label, 'overwrite')
    # the source library must not be altered, and must not share state with the target
    compare_group(ctx, lb[case['canon']]['thermochem'], wantB, label, 'overwrite-source')


def snapshot(g):
    r = g.get_range()
    return (g.ND_H_ref, g.ND_S_ref, tuple(sorted((float(k), float(v)) for k, v in (g.ND_Cp_data or {}).items())),
            None if r is None else (float(r[0]), float(r[1])), float(g.T_ref))


# ---------------------------------------------------------------------------------------------
# histories

TS = [300.0, 400.0, 500.0, 600.0, 800.0]
T_REF = 300.0
RANGE = (250.0, 1000.0)


@st.composite
def obj_data(draw):
    cp = {}
    for T in draw(st.lists(st.sampled_from(TS), max_size=4, unique=True)):
        cp[T] = draw(st.sampled_from([0.0, 1.0, 2.5, -1.0, 3.0]))
    H = draw(st.sampled_from([None, None, 0.0, 1.0, -2.5, 10.0]))
    S = draw(st.sampled_from([None, None, 0.0, 1.0, -2.5, 10.0]))
    rng = RANGE if (cp or draw(st.booleans())) else None
    if rng is not None and draw(st.integers(0, 3)) == 0:
        rng = (draw(st.sampled_from([200.0, 250.0, 300.0])), draw(st.sampled_from([800.0, 1000.0, 1500.0])))
    return dict(H=H, S=S, cp=cp, range=rng)


class MergeSim(object):
    """the real objects next to the dict-union model; every step records what it did in self.trace"""

    def __init__(self, ctx):
        self.ctx = ctx
        self.m = _pg()
        self.real = []
        self.model = []
        self.trace = []
        self.rejected_then_evaluated = False
        self.last_rejected = False

    def fail(self, bucket, msg):
        self.ctx.fail(bucket, '%s; history %s' % (msg, self.trace), case=dict(kind='history', trace=self.trace))

    def new(self, d):
        if len(self.real) >= 6:
            return
        cp = dict((float(k), v) for k, v in d['cp'].items())
        rng = tuple(d['range']) if d['range'] else None
        self.real.append(self.m['Group'](d['H'], d['S'], dict(cp), T_REF, rng))
        self.model.append(dict(H=d['H'], S=d['S'], cp=cp, range=rng))
        self.trace.append(['new', dict(H=d['H'], S=d['S'], cp={str(k): v for k, v in cp.items()}, range=list(rng) if rng else None)])

    def update(self, i, j, overwrite, twice):
        ctx, m = self.ctx, self.m
        i %= len(self.real)
        j %= len(self.real)
        if i == j:
            return
        A, B = self.model[i], self.model[j]
        self.trace.append(['update', i, j, overwrite, twice])
        conflict = None
        if not overwrite:
            for T, c in B['cp'].items():
                if T in A['cp'] and A['cp'][T] != c:
                    conflict = 'cp'
            if B['H'] is not None and A['H'] is not None and A['H'] != B['H']:
                conflict = conflict or 'H'
            if B['S'] is not None and A['S'] is not None and A['S'] != B['S']:
                conflict = conflict or 'S'
        before = snapshot(self.real[i])
        before_src = snapshot(self.real[j])
        ctx.count()
        try:
            if not overwrite and twice:
                self.real[i].update(self.real[j])          # the documented default is overwrite=False
            else:
                self.real[i].update(self.real[j], overwrite)
            raised = None
        except m['RODE'] as e:
            raised = e
        except Exception as e:
            self.fail('history:update-raises:%s' % type(e).__name__, 'update raised %s: %s (target %r, source %r)' % (type(e).__name__, e, A, B))
            # the object may be in any state now; resynchronise the model on what it holds
            self.resync(i)
            return
        if conflict and raised is None:
            zero = (B['H'] == 0 or A['H'] == 0 or B['S'] == 0 or A['S'] == 0)
            self.fail('history:conflict-accepted:%s%s' % (conflict, ':zero-valued' if zero and conflict != 'cp' else ''),
                      'update(overwrite=False) merged conflicting %s silently: target %r, source %r' % (conflict, A, B))
            self.resync(i)
            return
        if raised is not None:
            self.last_rejected = True
            ctx.event('history:rejected-update')
            if not conflict:
                self.fail('history:spurious-conflict', 'update raised ReadOnlyDataError without a conflict: target %r, source %r' % (A, B))
            after = snapshot(self.real[i])
            if after != before:
                self.fail('history:rejected-update-changed-target', 'rejected update changed the target: %r -> %r' % (before, after))
                self.resync(i)
            return
        if B['range'] is not None:
            A['range'] = B['range'] if A['range'] is None else (min(A['range'][0], B['range'][0]), max(A['range'][1], B['range'][1]))
        A['cp'].update(B['cp'])
        if B['H'] is not None:
            A['H'] = B['H']
        if B['S'] is not None:
            A['S'] = B['S']
        ctx.event('history:merged')
        if snapshot(self.real[j]) != before_src:
            self.fail('history:update-changed-source', 'update changed its source object')
            self.resync(j)
        if twice:
            once = snapshot(self.real[i])
            try:
                self.real[i].update(self.real[j], overwrite)
            except Exception as e:
                self.fail('history:second-identical-update-raises:%s' % type(e).__name__, 'merging the same data a second time raised %s: %s' % (type(e).__name__, e))
                return
            again = snapshot(self.real[i])
            if not same_snapshot(once, again):
                self.fail('history:update-not-idempotent', 'merging the same data twice changed the target: %r -> %r' % (once, again))
            ctx.event('history:merged-twice')

    def resync(self, i):
        """after a reported failure continue the history from what the object really holds"""
        s = snapshot(self.real[i])
        self.model[i] = dict(H=s[0], S=s[1], cp=dict(s[2]), range=s[3])

    def del_cp(self, i, T):
        """delete one Cp point in place; copies and merge sources must not notice"""
        i %= len(self.real)
        A = self.model[i]
        if T not in A['cp'] or A['range'] is None:
            return
        self.trace.append(['del_cp', i, T])
        try:
            self.real[i].del_ND_Cp(T)
        except Exception as e:
            self.fail('history:del_ND_Cp-raises:%s' % type(e).__name__, 'del_ND_Cp(%r) raised %s: %s' % (T, type(e).__name__, e))
            self.resync(i)
            return
        del A['cp'][T]
        self.ctx.event('history:deleted-a-point')

    def copy(self, i):
        i %= len(self.real)
        if len(self.real) >= 6:
            return
        self.real.append(self.real[i].copy())
        mm = self.model[i]
        self.model.append(dict(H=mm['H'], S=mm['S'], cp=dict(mm['cp']), range=mm['range']))
        self.trace.append(['copy', i])

    def evaluate(self, i, T):
        ctx, m = self.ctx, self.m
        i %= len(self.real)
        self.trace.append(['evaluate', i, T])
        if self.last_rejected:
            self.rejected_then_evaluated = True
            self.last_rejected = False
        A = self.model[i]
        g = self.real[i]
        if A['range'] is not None and not (A['range'][0] <= T <= A['range'][1]):
            return
        try:
            ref = m['Group'](A['H'], A['S'], dict(A['cp']), T_REF, A['range'])
        except Exception:
            return
        with warnings.catch_warnings():
            warnings.simplefilter('ignore')
            for X, need in (('HoRT', A['H'] is not None), ('SoR', A['S'] is not None), ('CpoR', bool(A['cp']))):
                if not need:
                    continue
                try:
                    y = getattr(ref, 'get_' + X)(T)
                except Exception:
                    return
                try:
                    x = getattr(g, 'get_' + X)(T)
                except Exception as e:
                    self.fail('history:evaluation-raises:%s' % type(e).__name__, '%s(%r) raised %s: %s; model %r' % (X, T, type(e).__name__, e, A))
                    return
                ctx.count()
                if abs(x - y) > 1e-9 * max(abs(x), abs(y), 1.0):
                    self.fail('history:evaluation-differs', '%s(%r) = %r, the model data give %r' % (X, T, x, y))

    def invariant(self):
        for k, (g, A) in enumerate(zip(self.real, self.model)):
            s = snapshot(g)
            want = (A['H'], A['S'], tuple(sorted(A['cp'].items())), A['range'], T_REF)
            if not same_snapshot(s, want):
                what = 'H' if not _same(s[0], want[0]) else 'S' if not _same(s[1], want[1]) else 'Cp' if s[2] != want[2] else 'range'
                zero = (want[0] == 0 and what == 'H') or (want[1] == 0 and what == 'S')
                self.fail('history:state-differs-from-union:%s%s' % (what, ':zero-valued' if zero else ''),
                          'object %d holds %r, the union model says %r' % (k, s, want))
                self.resync(k)

    def finish(self):
        ctx = self.ctx
        nt = self.rejected_then_evaluated or any(t[0] == 'update' for t in self.trace)
        ctx.begin('histories', dict(kind='history', trace=self.trace))
        ctx.case(nontrivial=nt, key=self.trace, sample=dict(history=self.trace[:12]), evals=0)
        ctx.event('history:length=%s' % ('<10' if len(self.trace) < 10 else '10-19' if len(self.trace) < 20 else '20+'))
        if self.rejected_then_evaluated:
            ctx.event('history:rejected-update-then-evaluation')


def make_machine(ctx):
    class Merge(RuleBasedStateMachine):
        def __init__(self):
            super().__init__()
            self.sim = MergeSim(ctx)

        @initialize(a=obj_data(), b=obj_data())
        def start(self, a, b):
            self.sim.new(a)
            self.sim.new(b)

        @rule(d=obj_data())
        def new(self, d):
            self.sim.new(d)

        @rule(i=st.integers(0, 5), j=st.integers(0, 5), overwrite=st.booleans(), twice=st.booleans())
        def update(self, i, j, overwrite, twice):
            self.sim.update(i, j, overwrite, twice)

        @rule(i=st.integers(0, 5))
        def copy(self, i):
            self.sim.copy(i)

        @rule(i=st.integers(0, 5), T=st.sampled_from(TS))
        def del_cp(self, i, T):
            self.sim.del_cp(i, T)

        @rule(i=st.integers(0, 5), T=st.sampled_from([300.0, 450.0, 800.0, 250.0]))
        def evaluate(self, i, T):
            self.sim.evaluate(i, T)

        @invariant()
        def agrees(self):
            if self.sim.real:
                self.sim.invariant()

        def teardown(self):
            self.sim.finish()

    return Merge


def _same(a, b):
    if a is None or b is None:
        return a is b
    return near(a, b, 1e-13)


def same_snapshot(a, b):
    return _same(a[0], b[0]) and _same(a[1], b[1]) and a[2] == b[2] and a[3] == b[3] and a[4] == b[4]


def run_histories(ctx, fam, n):
    Machine = make_machine(ctx)
    ti = 30 if ctx.tier == 'quick' else 50
    from hypothesis import settings, HealthCheck, Phase
    s = settings(max_examples=n, stateful_step_count=ti, database=None, deadline=None, derandomize=False,
                 report_multiple_bugs=False, phases=[Phase.generate],
                 suppress_health_check=[HealthCheck.too_slow, HealthCheck.data_too_large, HealthCheck.large_base_example],
                 print_blob=False)
    ctx.begin('histories', None)
    run_state_machine_as_test(hypothesis.seed(ctx.hseed('histories'))(Machine), settings=s)


def replay_history(ctx, case):
    """replay a saved history deterministically (no Hypothesis)"""
    sim = MergeSim(ctx)
    for step in case['trace']:
        op = step[0]
        if op == 'new':
            sim.new(step[1])
        elif op == 'update':
            sim.update(step[1], step[2], step[3], step[4])
        elif op == 'copy':
            sim.copy(step[1])
        elif op == 'del_cp':
            sim.del_cp(step[1], step[2])
        elif op == 'evaluate':
            sim.evaluate(step[1], step[2])
        sim.invariant()
    sim.finish()


def check_any(ctx, case):
    if case.get('kind') == 'history':
        return replay_history(ctx, case)
    return check_files(ctx, case)


FAMILIES = [
    Family('files', check_any, strategy=lambda tier: files_case(), n=(4000, 100000)),
    Family('histories', check_any, stateful=run_histories, n=(1000, 40000)),
]
