"""C03 - Descriptors do not depend on how the molecule is written.

Oracle: metamorphic.  Equivalent spellings of one molecule (atom renumberings, rooted SMILES, explicit hydrogens,
Kekule form, Mol object vs SMILES) must give identical descriptors or the same failure, hence identical estimates.
"""
import itertools
import random
import warnings

from hypothesis import strategies as st
from rdkit import Chem

from vlib.core import Family
from vlib import molgen, shipped

PROPERTY = 'C03'
RULE = ('for each of the 9 shipped schemes: generated molecules (in-vocabulary and failing; gas, alkenes with cis/trans marks '
        'on long chains, aromatics, radicals, Pt/Ru adsorbates) each in 8-30 equivalent spellings produced by RDKit from one '
        'parsed molecule: random atom renumberings, SMILES rooted at several atoms, all-H-explicit (also renumbered), Kekule '
        'form, and Mol objects (with and without explicit H) vs SMILES; exhaustive atom permutations through Mol objects for '
        'molecules with <= 5 (quick) / 6 (thorough) heavy atoms. Non-trivial = a spelling differs in atom order from the first '
        'and the molecule has a ring, a correction descriptor or >= 9 atoms. Distinct = distinct (scheme, molecule, spelling).')
ASSUMPTIONS = ['spellings are produced by RDKit from one parsed molecule, so stereo marks are preserved; spellings RDKit itself '
               'reads back to a different canonical SMILES are discarded (counted)',
               'ortho-fused aromatic six-rings: known finding (see C02), classified separately',
               'values compared at 1e-12']

from props.C02 import WEIGHTS   # noqa: E402
_m = {}


def _pg():
    if not _m:
        from pgradd.Error import PatternMatchError, GroupMissingDataError
        _m.update(PME=PatternMatchError, GMDE=GroupMissingDataError)
    return _m


def outcome(lib, inp):
    m = _pg()
    try:
        d = lib.GetDescriptors(inp)
        return ('ok', {str(k): v for k, v in d.items() if v != 0})
    except m['PME']:
        return ('PatternMatchError', None)
    except Exception as e:
        import traceback
        inner = [fr for fr in traceback.extract_tb(e.__traceback__) if '/pgradd/' in fr.filename]
        return ('raises:%s:%s' % (type(e).__name__, inner[-1].name if inner else '?'), str(e)[:150])


def same(a, b):
    if a[0] != b[0]:
        return False
    if a[0] != 'ok':
        return True
    return set(a[1]) == set(b[1]) and all(abs(a[1][k] - b[1][k]) <= 1e-12 for k in a[1])


@st.composite
def spelling_case(draw):
    L = draw(st.sampled_from(shipped.LIBS))
    w = dict(WEIGHTS[L], special=5, polycyclic=3 if L in ('BensonGA', 'PPY') else 1)
    w['witness' if L not in ('BensonGA', 'PPY') else 'witness-gas'] = 4
    w['large' if L not in ('BensonGA', 'PPY') else 'large-gas'] = 2
    w['remapped' if L not in ('BensonGA', 'PPY') else 'remapped-gas'] = 3
    smi = draw(molgen.mixed(w, metal='Ru' if L == 'XieGA2022' else 'Pt', max_heavy=draw(st.sampled_from([5, 8, 12, 20]))))
    return dict(kind='spellings', lib=L, smiles=smi, seed=draw(st.integers(0, 10 ** 6)), n=draw(st.sampled_from([6, 10, 20])))


def check_spellings(ctx, case):
    L, smi = case['lib'], case['smiles']
    lib = shipped.lib(L)
    sp = molgen.spellings(smi, case['n'], case['seed'])
    if len(sp) < 2:
        ctx.event('skip:no-equivalent-spelling')
        return
    fused = molgen.has_fused_aromatic(smi)
    tag = ':fused-aromatic' if fused else ''
    base = outcome(lib, sp[0][1])
    mol = Chem.MolFromSmiles(smi)
    heavy = mol.GetNumHeavyAtoms()
    ring = mol.GetRingInfo().NumRings() > 0
    corr = base[0] == 'ok' and any(not ('(' in k) for k in base[1])
    ctx.event('scheme:%s' % L)
    ctx.event('first-outcome:%s' % base[0].split(':')[0])
    if fused:
        ctx.event('class:fused-aromatic')
    if base[0].startswith('raises'):
        ctx.fail('decomposition-%s' % base[0], '[%s] GetDescriptors(%r): %s' % (L, sp[0][1], base[1]))
    inputs = [(k, s) for k, s in sp[1:]]
    # Mol objects: the parsed molecule itself, with explicit H, and a renumbered one
    rnd = random.Random(case['seed'])
    perm = list(range(mol.GetNumAtoms()))
    rnd.shuffle(perm)
    inputs += [('Mol-object', Chem.Mol(mol)), ('Mol-object-explicit-H', Chem.AddHs(mol)), ('Mol-object-renumbered', Chem.RenumberAtoms(mol, perm))]
    # hydrogens as atoms anywhere in the atom order (a mol file that lists C, H, H, H, C ...), not only behind the heavy atoms
    mh = Chem.AddHs(mol)
    permh = list(range(mh.GetNumAtoms()))
    rnd.shuffle(permh)
    inputs.append(('Mol-object-explicit-H-shuffled', Chem.RenumberAtoms(mh, permh)))
    for kind, inp in inputs:
        o = outcome(lib, inp)
        shown = inp if isinstance(inp, str) else 'Mol(%s)' % Chem.MolToSmiles(inp, canonical=False)
        nontriv = (ring or corr or mol.GetNumAtoms() >= 9 or Chem.AddHs(mol).GetNumAtoms() >= 9) and kind != 'canonical'
        ctx.case(nontrivial=nontriv, key=[L, smi, kind, shown], sample=dict(scheme=L, molecule=smi, spelling=shown, kind=kind, outcome=o[0]))
        ctx.event('spelling:%s' % kind)
        if o[0].startswith('raises'):
            ctx.fail('decomposition-%s:%s' % (o[0], 'Mol-input' if kind.startswith('Mol') else 'smiles-input'),
                     '[%s] GetDescriptors(%s) raised: %s' % (L, shown, o[1]))
            continue
        if not same(base, o):
            what = 'failure-vs-decomposition' if (base[0] != o[0]) else 'counts'
            diff = None
            if base[0] == 'ok' and o[0] == 'ok':
                diff = {k: (base[1].get(k), o[1].get(k)) for k in set(base[1]) | set(o[1]) if base[1].get(k) != o[1].get(k)}
                what = 'correction-counts' if all('(' not in k for k in diff) else 'groups'
            ctx.fail('spelling-changes-result:%s:%s%s' % (what, 'Mol-input' if kind.startswith('Mol') else 'smiles', tag),
                     '[%s] %r gives %s but its %s spelling %s gives %s (diff %s)' % (L, sp[0][1], base, kind, shown, o, diff))
    # the same Mol object handed over twice (and to a second scheme) must give the same answer and stay untouched
    for kind, inp in inputs:
        if not kind.startswith('Mol-object'):
            continue
        before = Chem.MolToSmiles(inp, canonical=False), inp.GetNumAtoms(), sorted(inp.GetAtomWithIdx(0).GetPropNames()) if inp.GetNumAtoms() else []
        o1 = outcome(lib, inp)
        o2 = outcome(lib, inp)
        other = shipped.lib('BensonGA' if L != 'BensonGA' else 'PPY')
        outcome(other, inp)
        o3 = outcome(lib, inp)
        ctx.count()
        after = Chem.MolToSmiles(inp, canonical=False), inp.GetNumAtoms(), sorted(inp.GetAtomWithIdx(0).GetPropNames()) if inp.GetNumAtoms() else []
        if not (same(o1, o2) and same(o1, o3) and same(base, o1)):
            ctx.fail('same-Mol-object-twice-differs%s' % tag, '[%s] %s of %r: SMILES gives %s; the same Mol object again %s, again %s, after another scheme %s' % (L, kind, smi, base, o1, o2, o3))
        elif before != after:
            ctx.fail('input-Mol-object-modified', '[%s] %s of %r changed from %s to %s by GetDescriptors' % (L, kind, smi, before, after))
    # identical descriptors => identical estimates (sampled)
    if base[0] == 'ok' and case['seed'] % 2 == 0:
        m = _pg()
        try:
            with warnings.catch_warnings():
                warnings.simplefilter('ignore')
                vals = []
                strs = [x for x in inputs if isinstance(x[1], str)]
                # one re-ordered spelling, and the ones that write hydrogens differently (bracket atoms with H counts, H atoms)
                for kind, inp in [sp[0]] + strs[:1] + [x for x in strs[1:] if x[0] in ('explicit-H', 'bracket-H', 'kekule')][:3]:
                    d = lib.GetDescriptors(inp)
                    e = lib.Estimate(d, 'thermochem')
                    vals.append((e.get_HoRT(298.15), e.get_GoRT(298.15, S_elements=True) if e.get_range() is None or e.get_range()[0] <= 298.15 else 0))
            ctx.count()
            if any(abs(v[0] - vals[0][0]) > 1e-9 * max(1, abs(vals[0][0])) or abs(v[1] - vals[0][1]) > 1e-9 * max(1, abs(vals[0][1])) for v in vals):
                ctx.fail('spelling-changes-estimate%s' % tag, '[%s] %r: estimates over spellings %s' % (L, smi, vals))
        except (m['GMDE'], Exception):
            pass


def enum_perms(tier):
    pool = ['CCO', 'CC=O', 'C=CC', 'CC(C)C', 'C1CC1C', 'C/C=C\\C', 'C/C=C/C', 'CC#C', 'OCCO', 'C[CH2]', 'CC(=O)O', 'C1CCC1', 'COC', 'C=C=C',
            'C[Pt]', '[Pt]CC[Pt]', 'OC[Pt]', 'C(=O)([Pt])O', '[Pt]C([Pt])C', 'CC(C)(C)C', 'C1CC2CC12', 'C=CC=C', 'C[Ru]', '[Ru]CC[Ru]',
            'C[C]=CC', 'CC=[C]C', '[CH]=CC', 'C=[C]C', 'C[C]=C', 'C[CH]C', '[CH2]C=C', 'C[C]=O', 'CC(=O)[O]', '[CH2]OC', 'C[C](C)C', 'C[C]#C'[:4]]
    if tier == 'thorough':
        pool += ['CCCCCC', 'CC(C)CC', 'c1ccccc1', 'C1CCCCC1', 'CC/C=C\\CC'[:9], 'OCC(O)C', 'CC(=O)OC', 'C1=CCC=C1C']
    for L in shipped.LIBS:
        for smi in pool:
            yield dict(kind='perms', lib=L, smiles=smi)


def check_perms(ctx, case):
    L, smi = case['lib'], case['smiles']
    lib = shipped.lib(L)
    mol = Chem.MolFromSmiles(smi)
    n = mol.GetNumAtoms()
    limit = 5 if ctx.tier == 'quick' else 6
    if n > limit:
        ctx.event('skip:too-many-atoms-for-exhaustive-permutation')
        return
    base = outcome(lib, smi)
    for perm in itertools.permutations(range(n)):
        m2 = Chem.RenumberAtoms(mol, list(perm))
        for kind, inp in (('permuted-Mol', m2), ('permuted-smiles', Chem.MolToSmiles(m2, canonical=False))):
            o = outcome(lib, inp)
            ctx.case(nontrivial=list(perm) != list(range(n)), key=[L, smi, kind, list(perm)],
                     sample=dict(scheme=L, molecule=smi, permutation=list(perm), kind=kind))
            if o[0].startswith('raises'):
                ctx.fail('decomposition-%s:%s' % (o[0], 'Mol-input' if 'Mol' in kind else 'smiles-input'), '[%s] %s of %r permuted %s: %s' % (L, kind, smi, perm, o[1]))
                break
            if not same(base, o):
                ctx.fail('spelling-changes-result:exhaustive-permutation:%s' % ('Mol-input' if 'Mol' in kind else 'smiles'),
                         '[%s] %r gives %s, atom permutation %s (%s) gives %s' % (L, smi, base, perm, kind, o))
                break


def enum_polycyclic(tier):
    """every molecule of the polycyclic pool (spiro, fused, bridged, several separate rings) in many atom orders: ring
    perception lists rings in an order that follows the atom numbering"""
    for L in ('BensonGA', 'PPY', 'GRWSurface2018'):
        for k, smi in enumerate(molgen.POLYCYCLIC):
            for rep in range(1 if tier == 'quick' else 6):
                yield dict(kind='spellings', lib=L, smiles=smi, seed=1000 * rep + k, n=20)


STEREO_ALKENES = ['CC/C(C)=C\\C(C)(C)C', 'CC(C)(C)/C=C(/C)CC', 'C/C=C(/C)CC', 'C/C(O)=C(/C)O', 'CC/C(C)=C(/C)CC', 'CC/C(C)=C(\\C)CC', 'C/C=C\\C(C)(C)C',
                  'CC(C)(C)/C=C\\C(C)(C)C', 'C/C(=C\\C(C)(C)C)C(C)(C)C', 'CCC/C(C)=C/C', 'C/C=C(\\CC)C(C)C', 'C/C(CC)=C(/C)C(C)(C)C']


def enum_directed(tier):
    """two classes where the answer hangs on where one atom sits in the atom order, enumerated so that no seed can miss them:
    chains whose patterns have about a thousand raw embeddings with the one radical end first or last, and double bonds with three
    or four substituents in cis/trans spellings (the reference substituents of the stereo label change with the spelling)"""
    for L in ('BensonGA', 'PPY', 'XieGA2022'):
        for k in (36, 40, 41, 42, 43, 44, 48):
            for smi in ('[CH2]' + 'C' * k, 'C' * k + '[CH2]', 'OC' + 'C' * k):
                yield dict(kind='spellings', lib=L, smiles=smi, seed=k, n=6)
    for L in ('BensonGA', 'PPY'):
        for k, smi in enumerate(STEREO_ALKENES):
            for rep in range(1 if tier == 'quick' else 4):
                yield dict(kind='spellings', lib=L, smiles=smi, seed=100 * rep + k, n=20)


def check_any(ctx, case):
    return {'spellings': check_spellings, 'perms': check_perms}[case['kind']](ctx, case)


FAMILIES = [
    Family('spellings', check_any, strategy=lambda tier: spelling_case(), n=(800, 32000)),
    Family('exhaustive-permutations', check_any, enumerate=enum_perms),
    Family('polycyclic-spellings', check_any, enumerate=enum_polycyclic),
    Family('directed-spellings', check_any, enumerate=enum_directed),
]
