"""C12 - Loading a library does not depend on the units its data use.

Oracle: metamorphic.  One abstract library is written in several unit presentations (non-dimensional keys, a
file-level default-unit block, explicit unit strings with prefixes, mixtures); all must load to correlations that
agree at every grid temperature, as plain numbers.  A dimensional value with no unit available must be rejected.
"""
import math
import numbers
import warnings

import numpy as np
from hypothesis import strategies as st

from vlib.core import Family
from vlib import libgen as LG
from vlib import thermogen as TG

PROPERTY = 'C12'
RULE = ('synthetic libraries of 2-6 groups (H, S, Cp incl. 0, negatives, tiny and large values; tables of 0-7 points; '
        'ranges) rendered as: P0 non-dimensional keys; P1 file-level units block (enthalpy J|kJ|cal|kcal per mol, '
        'eV/molecule, MJ/kmol ...; matching entropy / heat-capacity units; temperature K|mK|kK) with bare numbers, also with the '
        'data and its block in an included file under a root file declaring other defaults; P2 every '
        'value with its own explicit unit string; P3 a per-value mixture of the three; P4 dimensional keys with no unit '
        'available (must be rejected). Non-trivial = the presentations differ in unit for some value of a group with Cp '
        'data, or a zero-valued datum is present. Distinct = distinct (library, presentation set).')
ASSUMPTIONS = ['conversion factors from the exact unit table of vlib.unitsref; gas constant 8.314472 J/(mol K) as documented '
               'in pgradd/Consts.py',
               'agreement tolerance 1e-9 relative (+1e-12): values are written with repr() after one floating-point '
               'conversion',
               'P4: any exception from GroupLibrary.Load counts as rejection']

_m = {}


def _pg():
    if not _m:
        from pgradd.GroupAdd.Library import GroupLibrary
        import pgradd.ThermoChem  # noqa
        _m.update(Load=GroupLibrary.Load)
    return _m


def abstract(spec):
    return dict(T_ref=spec['T_ref'], H=spec['H'], S=spec['S'], cp=[[t, c] for t, c in zip(spec['Ts'], spec['Cps'])],
                range=spec['range'])


@st.composite
def how(draw, kind, block):
    """presentation of one value; block = units block dict or None"""
    units = {'H': LG.ENERGY_UNITS, 'S': LG.ENTROPY_UNITS, 'Cp': LG.ENTROPY_UNITS}[kind]
    key = {'H': 'molar enthalpy', 'S': 'molar entropy', 'Cp': 'molar heat capacity'}[kind]
    opts = [('nd',), ('explicit', draw(st.sampled_from(units)))]
    if block and key in block:
        opts.append(('default', block[key]))
    return draw(st.sampled_from(opts))


@st.composite
def lib_case(draw):
    n = draw(st.integers(2, 6))
    specs = []
    for _ in range(n):
        sp = draw(TG.group_spec())
        # sprinkle exact zeros and extreme magnitudes
        z = draw(st.integers(0, 5))
        if z == 0 and sp['H'] is not None:
            sp['H'] = 0.0
        if z == 1 and sp['S'] is not None:
            sp['S'] = 0.0
        if z == 2 and sp['Cps']:
            sp['Cps'][draw(st.integers(0, len(sp['Cps']) - 1))] = 0.0
        if z == 3 and sp['H'] is not None:
            sp['H'] = sp['H'] * draw(st.sampled_from([1e-6, 1e4]))
        # the reference temperature that is the documented default (298.15 K), where the data allow it: such a group may leave
        # T_ref out of its file entry
        eff = TG.effective_range(sp)
        if draw(st.integers(0, 2)) == 0 and (eff is None or eff[0] <= 298.15 <= eff[1]) and (sp['range'] or not sp['Ts'] or sp['Ts'][0] <= 298.15 <= sp['Ts'][-1]):
            sp['T_ref'] = 298.15
        specs.append(sp)
    block = {'molar enthalpy': draw(st.sampled_from(LG.ENERGY_UNITS)),
             'molar entropy': draw(st.sampled_from(LG.ENTROPY_UNITS)),
             'molar heat capacity': draw(st.sampled_from(LG.ENTROPY_UNITS)),
             'temperature': draw(st.sampled_from(LG.TEMP_UNITS))}
    ex = dict(H=draw(st.sampled_from(LG.ENERGY_UNITS)), S=draw(st.sampled_from(LG.ENTROPY_UNITS)),
              Cp=draw(st.sampled_from(LG.ENTROPY_UNITS)), T=draw(st.sampled_from(LG.TEMP_UNITS)))
    # P3: per group, per value
    mix = []
    for _ in range(n):
        mix.append(dict(H=list(draw(how('H', block))), S=list(draw(how('S', block))), Cp=list(draw(how('Cp', block))),
                        T=list(draw(st.sampled_from([('default', block['temperature']),
                                                     ('explicit', draw(st.sampled_from(LG.TEMP_UNITS)))])))))
    p4 = draw(st.sampled_from(['H', 'S', 'Cp', 'T']))
    return dict(kind='lib', specs=specs, block=block, explicit=ex, mix=mix, p4=p4,
                order=[list(draw(st.permutations(range(len(sp['Ts']))))) for sp in specs])


def presentations(case):
    specs = case['specs']
    n = len(specs)
    names = ['C(G%d)' % i for i in range(n)]
    blk, ex = case['block'], case['explicit']
    out = {}
    out['P0-nondimensional'] = (None, [dict(H=('nd',), S=('nd',), Cp=('nd',), T=('explicit', 'K')) for _ in range(n)])
    out['P1-default-units'] = (blk, [dict(H=('default', blk['molar enthalpy']), S=('default', blk['molar entropy']),
                                          Cp=('default', blk['molar heat capacity']), T=('default', blk['temperature']))
                                     for _ in range(n)])
    out['P1i-default-units-in-included-file'] = (blk, [dict(p) for p in out['P1-default-units'][1]])
    out['P2-explicit-units'] = (None, [dict(H=('explicit', ex['H']), S=('explicit', ex['S']), Cp=('explicit', ex['Cp']),
                                            T=('explicit', ex['T'])) for _ in range(n)])
    out['P3-mixture'] = (blk, [dict((k, tuple(v)) for k, v in m.items()) for m in case['mix']])
    # the same numbers written with an integer mantissa and a power of ten (5e-1 for 0.5): read by the unit grammar where a unit
    # follows or a default applies, by the plain-number reader for the non-dimensional keys
    # groups whose reference temperature is the default one leave it out (whatever the file's default temperature unit is)
    if any(sp['T_ref'] == 298.15 for sp in specs):
        out['P1o-default-units-T_ref-left-out'] = (blk, [dict(p, omit_T_ref=(sp['T_ref'] == 298.15 and (sp['H'] is not None or sp['S'] is not None or bool(sp['Ts']) or bool(sp['range'])))) for p, sp in zip(out['P1-default-units'][1], specs)])
        out['P2o-explicit-units-T_ref-left-out'] = (None, [dict(p, omit_T_ref=(sp['T_ref'] == 298.15 and (sp['H'] is not None or sp['S'] is not None or bool(sp['Ts']) or bool(sp['range'])))) for p, sp in zip(out['P2-explicit-units'][1], specs)])
        out['P0o-nondimensional-T_ref-left-out'] = (None, [dict(p, omit_T_ref=(sp['T_ref'] == 298.15 and (sp['H'] is not None or sp['S'] is not None or bool(sp['Ts']) or bool(sp['range'])))) for p, sp in zip(out['P0-nondimensional'][1], specs)])
    out['P2e-explicit-units-exponent-notation'] = (None, [dict(p, num='exponent') for p in out['P2-explicit-units'][1]])
    out['P1e-default-units-exponent-notation'] = (blk, [dict(p, num='exponent') for p in out['P1-default-units'][1]])
    out['P0e-nondimensional-exponent-notation'] = (None, [dict(p, num='exponent') for p in out['P0-nondimensional'][1]])
    for key, (b, ps) in out.items():
        for i, p in enumerate(ps):
            p['order'] = case['order'][i] if not key.startswith('P0') else None
    return names, out


def load_presentation(names, specs, block, pres, included=False):
    with LG.TempLib() as tl:
        groups = {nm: abstract(sp) for nm, sp in zip(names, specs)}
        pmap = dict(zip(names, pres))
        if included:
            # the data and ITS units block live in an included file; the root file declares other default units
            other = {'molar enthalpy': 'BTU/mol', 'molar entropy': 'BTU/(mol K)', 'molar heat capacity': 'BTU/(mol K)',
                     'temperature': 'kK' if block['temperature'] != 'kK' else 'mK'}
            tl.write('data.yaml', LG.render_file(groups, lambda nm: pmap[nm], units_block=block))
            tl.write('library.yaml', LG.render_file({}, None, units_block=other, include=['data.yaml']))
        else:
            tl.write('library.yaml', LG.render_file(groups, lambda nm: pmap[nm], units_block=block))
        text = open(tl.path()).read()
        with warnings.catch_warnings():
            warnings.simplefilter('ignore')
            lib = _pg()['Load'](tl.path())
    return lib, text


def grid(spec):
    r = TG.effective_range(spec)
    pts = [spec['T_ref']] + list(spec['Ts'])
    if r:
        # (range ends move by an ulp under unit conversion; stay a hair inside)
        pts += [r[0] * (1 + 1e-9), r[1] * (1 - 1e-9), 0.5 * (r[0] + r[1]), r[0] + 0.123 * (r[1] - r[0])]
        pts = [t for t in pts if r[0] * (1 + 1e-9) <= t <= r[1] * (1 - 1e-9)]
        if not pts and r[1] - r[0] > 1e-6 * r[1]:
            pts = [0.5 * (r[0] + r[1])]      # (a one-point range leaves nothing that survives a unit conversion of its bounds)
    return sorted(set(pts))


def plain(v):
    return isinstance(v, numbers.Real) and not isinstance(v, bool) and not hasattr(v, 'units') and not hasattr(v, '_units')


def check_lib(ctx, case):
    specs = case['specs']
    names, pres = presentations(case)
    zero = any(s['H'] == 0 or s['S'] == 0 or any(c == 0 for c in s['Cps']) for s in specs)
    ctx.case(nontrivial=any(s['Ts'] for s in specs) or zero, key=[case],
             sample=dict(groups=len(specs), block=case['block'], explicit=case['explicit'], zero_datum=zero))
    ctx.event('zero-valued-datum' if zero else 'no-zero-datum')
    ctx.event('block-temperature:%s' % case['block']['temperature'])
    results = {}
    for pname, (block, ps) in pres.items():
        try:
            lib, text = load_presentation(names, specs, block, ps, included=pname.startswith('P1i'))
        except Exception as e:
            import traceback
            tb = traceback.extract_tb(e.__traceback__)
            inner = [fr for fr in tb if '/pgradd/' in fr.filename]
            ctx.fail('load-fails:%s:%s%s' % (pname, type(e).__name__, ':zero-datum' if zero else ''),
                     'presentation %s failed to load: %s: %s (at %s)' % (pname, type(e).__name__, str(e)[:300],
                                                                        '%s:%d' % (inner[-1].filename.split('/pgradd/')[-1], inner[-1].lineno) if inner else '?'))
            continue
        vals = {}
        for nm, sp in zip(names, specs):
            g = lib[nm].get('thermochem') if nm in lib else None
            if g is None:
                ctx.fail('group-missing-after-load:%s' % pname, 'group %s absent from the loaded library' % nm)
                continue
            for attr in ('ND_H_ref', 'ND_S_ref', 'T_ref'):
                v = getattr(g, attr)
                if v is not None and not plain(v):
                    ctx.fail('stored-value-not-plain-number:%s%s' % (attr, ':zero' if (sp['H'] == 0 or sp['S'] == 0) else ''),
                             '[%s] %s.%s = %r (%s)' % (pname, nm, attr, v, type(v).__name__))
            for T, c in (g.ND_Cp_data or {}).items():
                if not plain(c) or not plain(T):
                    ctx.fail('stored-value-not-plain-number:Cp', '[%s] %s Cp(%r) = %r' % (pname, nm, T, c))
                    break
            # what was stored must be the abstract data, whatever the presentation
            def near(a, b):
                return abs(a - b) <= 1e-9 * max(abs(a), abs(b)) + 1e-12
            if plain(g.T_ref) and not near(g.T_ref, sp['T_ref']):
                ctx.fail('stored-T_ref:%s' % pname.split('-')[0], '[%s] %s.T_ref = %r, data say %r' % (pname, nm, g.T_ref, sp['T_ref']))
            r = g.get_range()
            if (r is None) != (sp['range'] is None) or (r is not None and not (near(r[0], sp['range'][0]) and near(r[1], sp['range'][1]))):
                ctx.fail('stored-range:%s' % pname.split('-')[0], '[%s] %s range = %r, data say %r' % (pname, nm, r, sp['range']))
            gotT = sorted(float(t) for t in (g.ND_Cp_data or {}))
            if len(gotT) != len(sp['Ts']) or not all(near(a, b) for a, b in zip(gotT, sorted(sp['Ts']))):
                ctx.fail('stored-table-temperatures:%s' % pname.split('-')[0], '[%s] %s table temperatures %r, data say %r' % (pname, nm, gotT, sp['Ts']))
            for X, need in (('HoRT', sp['H'] is not None), ('SoR', sp['S'] is not None), ('CpoR', bool(sp['Ts']))):
                if not need:
                    continue
                for T in grid(sp):
                    try:
                        with warnings.catch_warnings():
                            warnings.simplefilter('ignore')
                            v = getattr(g, 'get_' + X)(T)
                    except Exception as e:
                        ctx.fail('evaluation-raises:%s:%s' % (pname, type(e).__name__), '[%s] %s.get_%s(%r) raised %s: %s'
                                 % (pname, nm, X, T, type(e).__name__, str(e)[:200]))
                        break
                    ctx.count()
                    if not plain(v) or not math.isfinite(v):
                        ctx.fail('returned-value-not-plain-number', '[%s] %s.get_%s(%r) = %r' % (pname, nm, X, T, v))
                        break
                    vals[(nm, X, T)] = float(v)
        results[pname] = vals
    ref = results.get('P0-nondimensional')
    if ref is not None:
        for pname, vals in results.items():
            if pname == 'P0-nondimensional':
                continue
            scale = {}
            for (nm_, X_, T_), v_ in ref.items():
                scale[(nm_, X_)] = max(scale.get((nm_, X_), 0.0), abs(v_))
            for k, v in vals.items():
                # H/RT and S/R are sums of terms that may cancel: the tolerance scales with the group's largest value
                if k in ref and abs(v - ref[k]) > 1e-9 * max(abs(v), abs(ref[k]), scale[(k[0], k[1])], 1e-3):
                    nm, X, T = k
                    ctx.fail('presentations-disagree:%s:%s' % (pname.split('-')[0], X),
                             '%s(%r) of %s: %s gives %r, non-dimensional presentation gives %r (block %s, explicit %s)'
                             % (X, T, nm, pname, v, ref[k], case['block'], case['explicit']))
                    break
    # P4: one dimensional value with no unit available
    which = case['p4']
    sp = None
    for s in specs:
        if (which == 'H' and s['H'] is not None and s['H'] != 0) or (which == 'S' and s['S'] is not None and s['S'] != 0) or \
                (which == 'Cp' and s['Ts'] and any(c != 0 for c in s['Cps'])) or which == 'T':
            sp = s
            break
    if sp is None:
        ctx.event('P4:no-suitable-value')
        return
    p = dict(H=('nd',), S=('nd',), Cp=('nd',), T=('explicit', 'K'))
    if which == 'T':
        p['T'] = ('default', 'K')
    else:
        p[which] = ('bare',)
    ctx.event('P4:%s' % which)
    try:
        lib, text = load_presentation(['C(G0)'], [sp], None, [p])
    except Exception:
        ctx.event('P4:rejected')
        p4_multifile(ctx, case, sp, p, which)
        return
    ctx.fail('unitless-dimensional-value-accepted:%s' % which,
             'a library whose %s is a bare number with no unit available loaded silently:\n%s' % (which, text))


def p4_multifile(ctx, case, sp, p, which):
    """the unit-less value sits in an included file of its own; a sibling / the root declare default units for
    THEIR data.  Units are per file: it must still be rejected, whatever the include order."""
    groups_ok = {'C(G1)': abstract(case['specs'][0])}
    blk = case['block']
    ok_pres = dict(H=('default', blk['molar enthalpy']), S=('default', blk['molar entropy']), Cp=('default', blk['molar heat capacity']),
                   T=('default', blk['temperature']))
    for order in (['a.yaml', 'b.yaml'], ['b.yaml', 'a.yaml']):
        for root_units in (None, blk):
            with LG.TempLib() as tl:
                tl.write('a.yaml', LG.render_file(groups_ok, lambda nm: ok_pres, units_block=blk))
                tl.write('b.yaml', LG.render_file({'C(G0)': abstract(sp)}, lambda nm: p))
                tl.write('library.yaml', LG.render_file({}, None, units_block=root_units, include=order))
                ctx.count()
                ctx.event('P4-multifile')
                try:
                    with warnings.catch_warnings():
                        warnings.simplefilter('ignore')
                        _pg()['Load'](tl.path())
                except Exception:
                    continue
            ctx.fail('unitless-dimensional-value-accepted:included-file:%s' % which,
                     'an included file whose %s is a bare number and which has no units block was accepted (include order %s, root units %s)'
                     % (which, order, 'declared' if root_units else 'none'))
            return


FAMILIES = [
    Family('libraries', lambda ctx, case: check_lib(ctx, case), strategy=lambda tier: lib_case(), n=(1000, 36000)),
]
