"""Synthetic scheme files for C02: small generated schemes written to disk, loaded by the library and read as a
program by the independent interpreter."""
import os
import shutil
import tempfile

import yaml
from hypothesis import strategies as st

from vlib import molgen, ringast, schemeref

SYMS = ['C', 'C', 'O', 'H', '$', 'X', '&']
GROUPS = ['C(H)4', 'C(C)(H)3', 'C(C)2(H)2', 'O(C)(H)', 'O(H)2', 'C(H)3(O)', 'C(C)(H)2(O)', 'CD(C)(H)2', 'C(CD)(H)3', 'O(C)2']


@st.composite
def simple_constraint(draw):
    kind = draw(st.sampled_from(['conn', 'conn', 'conn', 'nring', 'ringsize', 'radical']))
    if kind == 'conn':
        return dict(kind='conn', neg=False, cn=draw(st.sampled_from([None, [None, 1], ['>=', 2], ['=', 3], ['<', 2], [None, 4], ['=', 0]])),
                    atom=dict(prefix=None, symbol=draw(st.sampled_from(['C', 'H', 'O', '$', 'X'])), suffix=draw(st.sampled_from([None, '?']))),
                    bond=draw(st.sampled_from([None, None, 'double', 'any', 'strong', 'single'])))
    if kind == 'nring':
        return dict(kind='nring', neg=False, cn=[draw(st.sampled_from([None, '>='])), draw(st.integers(0, 2))])
    if kind == 'ringsize':
        return dict(kind='ringsize', neg=False, cn=[draw(st.sampled_from([None, '<=', '>'])), draw(st.integers(3, 6))])
    return dict(kind='radical', neg=False, cn=[None, draw(st.integers(0, 1))])


def one_atom(sym, suffix, cons, label='c1'):
    return dict(molprefix=[], name='a', atoms=[dict(prefix=None, symbol=sym, suffix=suffix, label=label, constraints=cons)],
                tree=[], ringbonds=[], stereo=[])


@st.composite
def scheme_case(draw):
    pats = []
    # hydrogens
    hname = draw(st.sampled_from([['H', 'H'], ['none', 'H'], ['H', 'none'], ['none', 'none']]))
    pats.append(dict(center_name=hname[0], periph_name=hname[1], ast=one_atom('H', '?', [])))
    # oxygens
    pats.append(dict(center_name='O', periph_name=draw(st.sampled_from(['O', 'O', 'none'])), ast=one_atom('O', '?', [])))
    # carbons: split by a constraint and its negation (a proper partition), possibly perturbed
    c = draw(simple_constraint())
    notc = dict(c, neg=True)
    pats.append(dict(center_name='CD', periph_name=draw(st.sampled_from(['CD', 'C'])), ast=one_atom('C', '?', [c])))
    pats.append(dict(center_name='C', periph_name='C', ast=one_atom('C', '?', [notc])))
    if draw(st.integers(0, 2)) == 0:
        # a second split of one branch
        c2 = draw(simple_constraint())
        pats[-1] = dict(center_name='C', periph_name='C', ast=one_atom('C', '?', [notc, c2]))
        pats.append(dict(center_name='CE', periph_name='CE', ast=one_atom('C', '?', [notc, dict(c2, neg=True)])))
    perturb = draw(st.sampled_from(['none', 'none', 'none', 'drop', 'overlap', 'two-atom-centre']))
    if perturb == 'drop':
        del pats[draw(st.integers(2, len(pats) - 1))]
    elif perturb == 'overlap':
        pats.append(dict(center_name='CX', periph_name='CX', ast=one_atom(draw(st.sampled_from(['C', 'X', '$'])), '?', [draw(simple_constraint())])))
    elif perturb == 'two-atom-centre':
        f = draw(ringast.fragment(max_atoms=2, constraints=False, molprefix=False))
        if len(f['atoms']) == 2:
            f['atoms'][0]['symbol'] = 'C'
            pats.append(dict(center_name='CY', periph_name='CY', ast=f))
    order = draw(st.permutations(range(len(pats))))
    pats = [pats[i] for i in order]
    descs = []
    for _ in range(draw(st.integers(0, 3))):
        f = draw(ringast.fragment(max_atoms=3, constraints=draw(st.booleans()), molprefix=False))
        for a in f['atoms']:
            if a['symbol'] not in ('C', 'O', 'H', '$', 'X', '&', 'heavy atom', 'any atom', 'heteroatom'):
                a['symbol'] = draw(st.sampled_from(SYMS))
        descs.append(dict(name=draw(st.sampled_from(['D1', 'D2', 'D1', 'Gauche'])), ast=f))
    remaps = {}
    for _ in range(draw(st.integers(0, 3))):
        k = draw(st.sampled_from(GROUPS + ['D1', 'D2']))
        remaps[k] = [[draw(st.sampled_from([1, 0.5, 2, -1, 0.25])), draw(st.sampled_from(['R1', 'R2', 'C(H)4', 'D2']))]
                     for _ in range(draw(st.integers(1, 2)))]
    # a remap target must not be a remap source (chain-free, as C14 requires of shipped schemes)
    for k in list(remaps):
        remaps[k] = [[co, t] for co, t in remaps[k] if t not in remaps] or [[1, 'R1']]
    mols = [draw(st.one_of(molgen.gas(6, stereo=False), molgen.special(), molgen.radical(5), molgen.polycyclic())) for _ in range(4)]
    return dict(kind='synthetic', patterns=pats, descs=descs, remaps=remaps, molecules=mols, layout=draw(ringast.layout()))


def scheme_text(case):
    lay = case.get('layout')
    doc = dict(patterns=[dict(center_name=p['center_name'], periph_name=p['periph_name'], connectivity=ringast.render(p['ast'], lay))
                         for p in case['patterns']])
    if case['descs']:
        doc['other_descriptors'] = [dict(name=d['name'], connectivity=ringast.render(d['ast'], lay)) for d in case['descs']]
    if case['remaps']:
        doc['remaps'] = case['remaps']
    return yaml.safe_dump(doc, default_flow_style=False)


def check_synthetic(ctx, case):
    from pgradd.GroupAdd.Scheme import GroupAdditivityScheme
    from props.C02 import compare
    # every synthetic scheme of a process is written to the SAME path (the directory is removed after each case and made again):
    # loading a path gives what the file holds now, not what an earlier file at that path held
    d = os.path.join(os.environ.get('TMPDIR', '/tmp'), 'pgradd-scheme-reused-%d' % os.getpid())
    shutil.rmtree(d, ignore_errors=True)
    os.makedirs(d)
    try:
        path = os.path.join(d, 'scheme.yaml')
        with open(path, 'w') as f:
            f.write(scheme_text(case))
        try:
            ref = schemeref.SchemeRef(path)
        except Exception as e:
            ctx.event('synthetic:reference-parser-rejects(%s)' % type(e).__name__)
            return
        try:
            real = GroupAdditivityScheme.Load(path)
        except Exception as e:
            ctx.fail('synthetic-scheme-load-fails:%s' % type(e).__name__, 'Load raised %s: %s\n%s' % (type(e).__name__, str(e)[:200], scheme_text(case)))
            return
    finally:
        shutil.rmtree(d, ignore_errors=True)
    corr = set(x['name'] for x in case['descs'])
    for smi in case['molecules']:
        res, want = compare(ctx, real.GetDescriptors, ref, smi, 'synthetic scheme\n%s' % scheme_text(case), corr_names=corr)
        failure = isinstance(want, tuple)
        nontriv = failure or any(k in corr for k in want) or any(k in ('R1', 'R2') for k in want)
        ctx.case(nontrivial=nontriv, key=['synthetic', scheme_text(case), smi],
                 sample=dict(scheme_patterns=[(p['center_name'], ringast.render(p['ast'])) for p in case['patterns']][:6], molecule=smi,
                             expected=want if not failure else list(want)))
        ctx.event('synthetic:expected:%s' % (('failure-' + want[1]) if failure else 'decomposition'))
        if not failure and any(k in corr for k in want):
            ctx.event('synthetic:with-correction-descriptor')
        if not failure and any(k in ('R1', 'R2') for k in want):
            ctx.event('synthetic:with-remapped-key')
