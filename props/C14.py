"""C14 - Every shipped database loads, is self-consistent and relocatable.

Finite configuration space, enumerated exhaustively: 9 libraries x ways of locating them x every group, pattern,
remap and uncertainty entry.  Oracle: identical fingerprints across locations + self-consistency predicates.
"""
import json
import math
import numbers
import os
import shutil
import subprocess
import sys
import tempfile
import warnings

import numpy as np

from vlib.core import Family, REPO, HERE
from vlib import shipped, ringparse

PROPERTY = 'C14'
RULE = ('exhaustive: 9 bundled libraries x {by name, by explicit .../library.yaml path, from a relocated copy selected with '
        'pgradd_DATA_DIR given as an absolute and as a relative path, by path from a copy with an edited scheme.yaml, each in a '
        'fresh interpreter} (fingerprints must be '
        'identical) x every group (finite plain numbers for every property it has data for at 7 (quick) / 50 (thorough) '
        'temperatures across its range), every connectivity pattern (read by the library reader and by an independent '
        'parser), every remap rule (well-formed, chain-free), every uncertainty entry (basis names have data; matrix square, '
        'sized to the basis, symmetric, positive semi-definite). Non-trivial = the entry has Cp data or is a pattern / '
        'remap / uncertainty / relocation entry. Each (library, entry) is one case.')
ASSUMPTIONS = ['the fresh interpreters run the same working tree (PYTHONPATH = VERIF_REPO)',
               'PSD tolerance: min eigenvalue >= -1e-9 * max |eigenvalue|; symmetry 1e-12 absolute',
               'independent RING parser (vlib/ringparse.py) is the second reader of every connectivity string']

WORKER = r'''
import sys, json, os
sys.path.insert(0, %(verif)r)
os.environ['VERIF_REPO'] = %(repo)r
from vlib.core import setup_imports
setup_imports()
from vlib import shipped
from pgradd.GroupAdd.Library import GroupLibrary
import pgradd.ThermoChem
import pgradd.GroupAdd.DataDir as DD
if os.environ.get('VERIF_SET_DATA_DIR_LATE'):
    # the override set by the program itself, after the package was imported and before the first load
    os.environ['pgradd_DATA_DIR'] = os.environ['VERIF_SET_DATA_DIR_LATE']
out = {}
for item in json.loads(sys.argv[1]):
    name, arg = item[0], item[1]
    try:
        if len(item) > 2:
            os.chdir(item[2])
        lib = GroupLibrary.Load(arg)
        out[name] = dict(fp=shipped.fingerprint(lib), path=os.path.realpath(lib.path))
    except BaseException as e:
        out[name] = dict(error='%%s: %%s' %% (type(e).__name__, str(e)[:300]))
try:
    out['__data_dir__'] = os.path.realpath(DD.get_data_dir())
except BaseException as e:
    out['__data_dir__'] = 'ERROR %%s: %%s' %% (type(e).__name__, e)
print('FPJSON' + json.dumps(out))
'''


def run_worker(args, env_extra=None, cwd=None):
    env = dict(os.environ, PYTHONHASHSEED='0')
    env.pop('pgradd_DATA_DIR', None)
    if env_extra:
        env.update(env_extra)
    code = WORKER % dict(verif=HERE, repo=REPO)
    r = subprocess.run([sys.executable, '-c', code, json.dumps(args)], capture_output=True, text=True, env=env, cwd=cwd,
                       timeout=900)
    for line in r.stdout.splitlines():
        if line.startswith('FPJSON'):
            return json.loads(line[6:])
    raise RuntimeError('fingerprint worker failed: %s' % (r.stderr[-1500:] or r.stdout[-500:]))


_loc = {}


def locations():
    """run the four ways of locating the libraries once per process"""
    if _loc:
        return _loc
    data = shipped.data_dir()
    _loc['by-name'] = run_worker([[L, L] for L in shipped.LIBS], cwd=HERE)
    _loc['by-path'] = run_worker([[L, os.path.join(data, L, 'library.yaml')] for L in shipped.LIBS], cwd=HERE)
    tmp = tempfile.mkdtemp(prefix='pgradd-reloc-', dir=os.environ.get('TMPDIR', '/tmp'))
    try:
        dst = os.path.join(tmp, 'elsewhere', 'data copy')
        shutil.copytree(data, dst)
        _loc['relocated-absolute'] = run_worker([[L, L] for L in shipped.LIBS], {'pgradd_DATA_DIR': dst}, cwd=HERE)
        _loc['relocated-absolute']['__expected_dir__'] = os.path.realpath(dst)
        _loc['relocated-relative'] = run_worker([[L, L] for L in shipped.LIBS],
                                                {'pgradd_DATA_DIR': os.path.join('elsewhere', 'data copy')}, cwd=tmp)
        _loc['relocated-relative']['__expected_dir__'] = os.path.realpath(dst)
        _loc['relocated-set-after-import'] = run_worker([[L, L] for L in shipped.LIBS], {'VERIF_SET_DATA_DIR_LATE': dst}, cwd=HERE)
        _loc['relocated-set-after-import']['__expected_dir__'] = os.path.realpath(dst)
        # each library's directory ALONE somewhere else (a library is the directory that carries its name), by explicit path
        alone = os.path.join(tmp, 'alone')
        for L in shipped.LIBS:
            shutil.copytree(os.path.join(data, L), os.path.join(alone, L + '-only', L))
        _loc['alone-by-path'] = run_worker([[L, os.path.join(alone, L + '-only', L, 'library.yaml')] for L in shipped.LIBS], cwd=HERE)
        _loc['alone-by-path']['__expected_dir__'] = os.path.realpath(alone)
        # all of them in one process through the SAME relative path string, each from inside its own directory
        _loc['relative-path-from-its-directory'] = run_worker([[L, 'library.yaml', os.path.join(dst, L)] for L in shipped.LIBS], cwd=HERE)
        _loc['relative-path-from-its-directory']['__expected_dir__'] = os.path.realpath(dst)
        # a copy with an EDITED scheme, loaded by explicit path and no override: the scheme next to the file must be used
        marker = "\n- center_name: VerifMarker\n  periph_name: VerifMarker\n  connectivity: 'fragment a{Au labeled c1}'\n"
        for L in shipped.LIBS:
            sp = os.path.join(dst, L, 'scheme.yaml')
            txt = open(sp).read()
            i = txt.index('patterns:') + len('patterns:')
            open(sp, 'w').write(txt[:i] + marker + txt[i:])
        _loc['edited-copy-by-path'] = run_worker([[L, os.path.join(dst, L, 'library.yaml')] for L in shipped.LIBS], cwd=HERE)
        _loc['edited-copy-by-path']['__expected_dir__'] = os.path.realpath(dst)
    finally:
        shutil.rmtree(tmp, ignore_errors=True)
    return _loc


def enum_cases(tier):
    for L in shipped.LIBS:
        for way in ('by-path', 'relocated-absolute', 'relocated-relative', 'relocated-set-after-import', 'alone-by-path', 'relative-path-from-its-directory', 'edited-copy-by-path'):
            yield dict(kind='location', lib=L, way=way)
        for k in shipped.group_names(L):
            yield dict(kind='group', lib=L, group=k)
        sch = shipped.raw_yaml(L, 'scheme.yaml')
        for i, p in enumerate(sch.get('patterns') or []):
            yield dict(kind='pattern', lib=L, section='patterns', index=i)
        for i, p in enumerate(sch.get('other_descriptors') or []):
            yield dict(kind='pattern', lib=L, section='other_descriptors', index=i)
        for k in (sch.get('remaps') or {}):
            yield dict(kind='remap', lib=L, key=k)
        inc = (shipped.raw_yaml(L, 'library.yaml') or {}).get('include') or []
        if 'uq.yaml' in inc:
            yield dict(kind='uq', lib=L)


def diff_fp(a, b):
    """first difference between two fingerprints"""
    if a == b:
        return None
    for sect in ('groups', 'uq', 'scheme'):
        if a.get(sect) != b.get(sect):
            if sect == 'groups':
                ka, kb = set(a['groups']), set(b['groups'])
                if ka != kb:
                    return 'group sets differ: only here %s, only there %s' % (sorted(ka - kb)[:3], sorted(kb - ka)[:3])
                for k in sorted(ka):
                    if a['groups'][k] != b['groups'][k]:
                        return 'group %s: %r vs %r' % (k, a['groups'][k], b['groups'][k])
            return '%s differs' % sect
    return 'differs'


def check_location(ctx, case):
    loc = locations()
    L, way = case['lib'], case['way']
    ctx.case(nontrivial=True, key=['location', L, way], sample=dict(lib=L, way=way))
    ctx.event('location:%s' % way)
    ref = loc['by-name'].get(L, {})
    got = loc[way].get(L, {})
    if 'error' in ref:
        ctx.fail('load-by-name-fails:%s' % L, '%s by name: %s' % (L, ref['error']))
        return
    if 'error' in got:
        ctx.fail('load-fails:%s' % way, '%s %s: %s' % (L, way, got['error']))
        return
    if way == 'edited-copy-by-path':
        pats = got['fp']['scheme']['patterns']
        if got['fp']['scheme']['n_patterns'] != ref['fp']['scheme']['n_patterns'] + 1 or not any(p[0] == 'VerifMarker' for p in pats):
            ctx.fail('path-load-ignores-scheme-next-to-file', '%s loaded by path from an edited copy: %d patterns (bundled: %d), marker pattern %s'
                     % (L, got['fp']['scheme']['n_patterns'], ref['fp']['scheme']['n_patterns'],
                        'present' if any(p[0] == 'VerifMarker' for p in pats) else 'absent'))
        got = dict(got, fp=dict(got['fp'], scheme=ref['fp']['scheme']))
        if not got['path'].startswith(loc[way]['__expected_dir__'] + os.sep):
            ctx.fail('wrong-file-loaded:%s' % way, '%s: loaded %s' % (L, got['path']))
    # the scheme a library was loaded with must be the one in ITS scheme.yaml, whatever was loaded before it in the process
    raw = shipped.raw_yaml(L, 'scheme.yaml')
    raw_remaps = {str(k): [[float(a), str(b)] for a, b in v] for k, v in (raw.get('remaps') or {}).items()}
    for which, fp in (('by-name', ref['fp']), (way, got['fp'])):
        if way == 'edited-copy-by-path' and which != 'by-name':
            continue
        if fp['scheme']['remaps'] != raw_remaps:
            extra = sorted(set(fp['scheme']['remaps']) - set(raw_remaps))[:4]
            missing = sorted(set(raw_remaps) - set(fp['scheme']['remaps']))[:4]
            ctx.fail('loaded-remaps-differ-from-scheme-file', '%s loaded %s: remap rules differ from its scheme.yaml (extra %s, missing %s)' % (L, which, extra, missing))
            break
        if fp['scheme']['n_patterns'] != len(raw.get('patterns') or []) and which == 'by-name':
            ctx.fail('loaded-patterns-differ-from-scheme-file', '%s: %d patterns loaded, %d in scheme.yaml' % (L, fp['scheme']['n_patterns'], len(raw.get('patterns') or [])))
    d = diff_fp(ref['fp'], got['fp'])
    if d:
        ctx.fail('contents-differ:%s' % way, '%s loaded %s differs from loading by name: %s' % (L, way, d))
    if way in ('alone-by-path', 'relative-path-from-its-directory'):
        if not got['path'].startswith(loc[way]['__expected_dir__'] + os.sep) or os.path.basename(os.path.dirname(got['path'])) != L:
            ctx.fail('wrong-file-loaded:%s' % way, '%s: loaded %s' % (L, got['path']))
    if way.startswith('relocated'):
        want = loc[way]['__expected_dir__']
        if not got['path'].startswith(want + os.sep):
            ctx.fail('override-ignored:%s' % way, '%s: pgradd_DATA_DIR=%s but the library was read from %s (data dir %s)'
                     % (L, want, got['path'], loc[way]['__data_dir__']))
    elif way == 'by-path':
        if got['path'] != os.path.realpath(os.path.join(shipped.data_dir(), L, 'library.yaml')):
            ctx.fail('wrong-file-loaded:%s' % way, '%s: loaded %s' % (L, got['path']))


def check_group(ctx, case):
    lib = shipped.lib(case['lib'])
    name = case['group']
    ps = lib[name]
    ctx.event('group')
    if 'thermochem' not in ps:
        ctx.case(nontrivial=False, key=['group', case['lib'], name])
        ctx.fail('entry-without-data:%s' % case['lib'], '%s entry %r has no thermochem data after loading' % (case['lib'], name))
        return
    g = ps['thermochem']
    has_cp = bool(g.ND_Cp_data)
    ctx.case(nontrivial=has_cp, key=['group', case['lib'], name], sample=dict(lib=case['lib'], group=name, cp_points=len(g.ND_Cp_data or {})))
    for attr in ('T_ref', 'ND_H_ref', 'ND_S_ref'):
        v = getattr(g, attr)
        if v is not None and not (isinstance(v, numbers.Real) and math.isfinite(v)):
            ctx.fail('stored-value-not-a-finite-number', '%s %s.%s = %r' % (case['lib'], name, attr, v))
            return
    for T, c in (g.ND_Cp_data or {}).items():
        if not (isinstance(c, numbers.Real) and isinstance(T, numbers.Real) and math.isfinite(c)):
            ctx.fail('stored-value-not-a-finite-number', '%s %s Cp(%r) = %r' % (case['lib'], name, T, c))
            return
    r = g.get_range()
    if r is None:
        r = (min(g.ND_Cp_data), max(g.ND_Cp_data)) if g.ND_Cp_data else (g.T_ref, g.T_ref)
    n = 7 if ctx.tier == 'quick' else 50
    Ts = [r[0] + (r[1] - r[0]) * k / (n - 1) for k in range(n)]
    Ts[-1] = r[1]
    for X, need in (('HoRT', g.ND_H_ref is not None), ('SoR', g.ND_S_ref is not None), ('CpoR', has_cp),
                    ('GoRT', g.ND_H_ref is not None and g.ND_S_ref is not None)):
        if not need:
            continue
        for T in Ts:
            with warnings.catch_warnings():
                warnings.simplefilter('ignore')
                try:
                    v = getattr(g, 'get_' + X)(T)
                except Exception as e:
                    ctx.fail('evaluation-raises:%s' % type(e).__name__, '%s %s.get_%s(%r) raised %s: %s' % (case['lib'], name, X, T, type(e).__name__, str(e)[:200]))
                    return
            ctx.count()
            if not (isinstance(v, numbers.Real) and not hasattr(v, 'units') and math.isfinite(v)):
                ctx.fail('evaluation-not-finite-plain-number', '%s %s.get_%s(%r) = %r' % (case['lib'], name, X, T, v))
                return


def check_pattern(ctx, case):
    from pgradd.RINGParser import Read
    sch = shipped.raw_yaml(case['lib'], 'scheme.yaml')
    p = sch[case['section']][case['index']]
    text = p['connectivity']
    ctx.case(nontrivial=True, key=['pattern', case['lib'], case['section'], case['index']],
             sample=dict(lib=case['lib'], section=case['section'], text=text[:120]))
    ctx.event('pattern:%s' % case['section'])
    name_key = 'name' if case['section'] == 'other_descriptors' else 'center_name'
    if name_key not in p or (case['section'] == 'patterns' and 'periph_name' not in p):
        ctx.fail('pattern-entry-malformed', '%s %s[%d] lacks its name keys: %r' % (case['lib'], case['section'], case['index'], sorted(p)))
    try:
        q = Read(text)
        if q is None or not hasattr(q, 'GetQueryMatches'):
            raise TypeError('Read returned %r' % (q,))
    except Exception as e:
        ctx.fail('pattern-unreadable:library-reader', '%s %s[%d]: %s: %s\n%s' % (case['lib'], case['section'], case['index'], type(e).__name__, str(e)[:200], text))
        return
    try:
        ast = ringparse.parse_fragment(text)
    except Exception as e:
        ctx.fail('pattern-unreadable:independent-parser', '%s %s[%d]: %s: %s\n%s' % (case['lib'], case['section'], case['index'], type(e).__name__, str(e)[:200], text))
        return
    # the two readers must at least agree on the number of atoms
    try:
        n_real = q.mol.GetNumAtoms() if hasattr(q, 'mol') else None
    except Exception:
        n_real = None
    if n_real is not None and n_real != len(ast['atoms']):
        ctx.fail('pattern-readers-disagree', '%s %s[%d]: library reader sees %d atoms, independent parser %d\n%s'
                 % (case['lib'], case['section'], case['index'], n_real, len(ast['atoms']), text))


def check_remap(ctx, case):
    sch = shipped.raw_yaml(case['lib'], 'scheme.yaml')
    remaps = sch.get('remaps') or {}
    k = case['key']
    v = remaps[k]
    ctx.case(nontrivial=True, key=['remap', case['lib'], k], sample=dict(lib=case['lib'], source=k, targets=v))
    ctx.event('remap')
    ok = isinstance(v, list) and len(v) >= 1 and all(
        isinstance(x, list) and len(x) == 2 and isinstance(x[0], numbers.Real) and not isinstance(x[0], bool)
        and isinstance(x[1], str) for x in v)
    if not ok:
        ctx.fail('remap-malformed', '%s remap %r -> %r is not a list of [number, name]' % (case['lib'], k, v))
        return
    for coef, tgt in v:
        if tgt in remaps:
            ctx.fail('remap-chain', '%s remap %r -> %r, but %r is itself remapped' % (case['lib'], k, tgt, tgt))
        if not math.isfinite(coef):
            ctx.fail('remap-malformed', '%s remap %r has coefficient %r' % (case['lib'], k, coef))


def check_uq(ctx, case):
    L = case['lib']
    raw = shipped.raw_yaml(L, 'uq.yaml')['UQ']
    basis = raw['InvCovMat']['groups']
    M = np.array(raw['InvCovMat']['mat'], dtype=float)
    lib = shipped.lib(L)
    ctx.case(nontrivial=True, key=['uq', L], sample=dict(lib=L, basis=len(basis), shape=list(M.shape)))
    ctx.event('uq')
    if M.ndim != 2 or M.shape[0] != M.shape[1]:
        ctx.fail('uq-matrix-not-square', '%s matrix shape %s' % (L, M.shape))
        return
    if M.shape[0] != len(basis):
        ctx.fail('uq-matrix-not-sized-to-basis', '%s matrix %s, basis %d' % (L, M.shape, len(basis)))
        return
    if len(set(basis)) != len(basis):
        ctx.fail('uq-basis-duplicate', '%s basis lists a descriptor twice' % L)
    asym = float(np.abs(M - M.T).max())
    if asym > 1e-12:
        i, j = np.unravel_index(np.argmax(np.abs(M - M.T)), M.shape)
        ctx.fail('uq-matrix-not-symmetric', '%s |M - M^T| max = %g at (%d,%d): %r vs %r' % (L, asym, i, j, M[i, j], M[j, i]))
    w = np.linalg.eigvalsh(0.5 * (M + M.T))
    if w.min() < -1e-9 * np.abs(w).max():
        ctx.fail('uq-matrix-not-psd', '%s min eigenvalue %g (max %g)' % (L, w.min(), w.max()))
    for d in basis:
        ctx.count()
        if 'thermochem' not in lib[d]:
            ctx.fail('uq-basis-descriptor-without-data', '%s basis descriptor %r names no entry with data' % (L, d))
            break
    loaded = lib.uq_contents
    if list(loaded['descriptors']) != list(basis) or not np.array_equal(np.array(loaded['mat'], dtype=float), M):
        ctx.fail('uq-loaded-differs-from-file', '%s loaded basis/matrix differ from uq.yaml' % L)
    for attr in ('ND_H_ref', 'ND_S_ref'):
        v = getattr(loaded['RMSE'].thermochem, attr)
        if not (isinstance(v, numbers.Real) and math.isfinite(v)):
            ctx.fail('uq-rmse-not-a-number', '%s RMSE %s = %r' % (L, attr, v))


def check_any(ctx, case):
    return {'location': check_location, 'group': check_group, 'pattern': check_pattern, 'remap': check_remap,
            'uq': check_uq}[case['kind']](ctx, case)


# sharded over processes except the location family, whose four interpreters are launched once (shard 0)
FAMILIES = [
    Family('locations', check_any, enumerate=lambda tier: (c for c in enum_cases(tier) if c['kind'] == 'location'), sharded=False),
    Family('entries', check_any, enumerate=lambda tier: (c for c in enum_cases(tier) if c['kind'] != 'location')),
]
