"""C16 - A RING reaction rule applies exactly its declared edit per match.

Oracle: an independent electron-balance count predicts acceptance / RINGReaderError; for accepted rules the
multiset of product sets must equal the reference edit (vlib/rxnref.py) of the H-explicit reactant at every reference
match (vlib/ringref.py), compared as labelled graphs (element, charge, radical count, bond orders).
"""
import collections

from hypothesis import strategies as st
from rdkit import Chem

from vlib.core import Family
from vlib import molgen, ringast, ringref, ruleast, rxnref

PROPERTY = 'C16'
RULE = ('unimolecular rules: a reactant fragment of 1-4 atoms (C/H/O, suffix none / . / ?), half of them abstracted from a '
        'connected sub-graph of the molecule they are run on, plus an edit sequence generated with its electron '
        'bookkeeping: balanced by construction (break <-> radical increases, form <-> decreases, order +-1 <-> radicals '
        '-+1, modify bond with compensation, charge with radical compensation) or deliberately unbalanced (one edit '
        'removed or duplicated), random layout; x small molecules and radicals (<= 6 heavy atoms). Non-trivial = the rule '
        'is accepted and matches the molecule at least once, or is rejected for imbalance. Distinct = distinct (rule text, molecule).')
ASSUMPTIONS = ['edits that are ill-defined on a particular molecule (forming a bond the molecule already has, radicals below 0) '
               'are detected by the reference and skipped (counted)',
               'product sets are compared as labelled graphs with networkx (Weisfeiler-Lehman hash, then isomorphism)',
               'RDKit SMILES reading / AddHs trusted; the reference matcher supplies the expected matches']
_m = {}


def _pg():
    if not _m:
        from pgradd.RINGParser import Read
        from pgradd.Error import RINGReaderError, RINGError
        _m.update(Read=Read, RRE=RINGReaderError, RE=RINGError)
    return _m


MOLS = ['CC', 'CCC', 'C=C', 'CC=C', 'C#C', 'CO', 'CCO', 'C=O', 'CC=O', 'C[CH2]', '[CH2][CH2]', '[CH3]', 'C[O]', 'O', 'C', 'OO', 'C1CC1', 'CC(C)C',
        'C=CC=C', 'OCCO', '[CH2]C=C', 'C[CH]C', 'CC#C', 'COC', 'O=C=O', '[CH2]O', 'C=C[CH2]', '[CH]=C', '[CH2]C[CH2]', 'CC(=O)O',
        'c1ccccc1', 'Cc1ccccc1', 'c1ccoc1', 'Oc1ccccc1']


DIRADICALS = ['[CH2]C[CH2]', '[CH2]CC[CH2]', '[CH2]O[CH2]', '[CH2]C(C)[CH2]', '[CH2]C[O]', '[CH]C[CH2]', '[CH2]C=C[CH2]']


@st.composite
def ring_closure_case(draw):
    """form a bond between the two radical ends of a chain (the pattern is the chain, so the ends are not bonded in it)"""
    smi = draw(st.sampled_from(DIRADICALS))
    mol = Chem.AddHs(Chem.MolFromSmiles(smi))
    rad = [a.GetIdx() for a in mol.GetAtoms() if a.GetNumRadicalElectrons()]
    path = list(Chem.GetShortestPath(mol, rad[0], rad[1]))
    labs = draw(ringast.labels(len(path)))
    atoms = []
    for k, i in enumerate(path):
        a = mol.GetAtomWithIdx(i)
        atoms.append(dict(prefix=None, symbol=a.GetSymbol(), suffix=draw(st.sampled_from(['.', '?', ':' if a.GetNumRadicalElectrons() == 2 else '.']))
                          if k in (0, len(path) - 1) else draw(st.sampled_from([None, '?'])), label=labs[k], constraints=[]))
    tree = []
    for k in range(1, len(path)):
        bt = mol.GetBondBetweenAtoms(path[k - 1], path[k]).GetBondType().name.lower()
        tree.append([k, k - 1, bt])
    frag = dict(molprefix=[], name='r', atoms=atoms, tree=tree, ringbonds=[], stereo=[])
    kind = draw(st.sampled_from([None, 'single', 'single']))
    edits = [['form', len(path) - 1, 0, kind] if draw(st.booleans()) else ['form', 0, len(path) - 1, kind], ['dec-rad', 0], ['dec-rad', len(path) - 1]]
    edits = [edits[i] for i in draw(st.permutations(range(3)))]
    rule = dict(name='close', rname='r1', reactant=frag, edits=edits)
    return dict(kind='rule', rule=rule, layout=draw(ringast.layout()), smiles=smi, directed=True)


SAME_BOND = [('[CH][CH]', 1, 2), ('[C][C]', 1, 3), ('[CH2][CH2]', 1, 1), ('C#C', 3, 0), ('[C]#[C]', 3, 1), ('C=C', 2, 0), ('[CH]=[CH]', 2, 1),
             ('CC', 1, 0), ('C[C][C]C', 1, 2), ('[CH]=O', 2, 1), ('[CH][O]', 1, 1)]


@st.composite
def same_bond_case(draw):
    """several edits of ONE bond in a row (increase twice, decrease then increase, set then increase ...): every edit acts on
    the bond as the edits before it left it, not as the pattern declares it"""
    smi, order, rad = draw(st.sampled_from(SAME_BOND))
    mol = Chem.AddHs(Chem.MolFromSmiles(smi))
    heavy = [a.GetIdx() for a in mol.GetAtoms() if a.GetAtomicNum() > 1]
    pair = next((b.GetBeginAtomIdx(), b.GetEndAtomIdx()) for b in mol.GetBonds()
                if b.GetBeginAtom().GetNumRadicalElectrons() == b.GetEndAtom().GetNumRadicalElectrons() == rad or
                (b.GetBeginAtomIdx() in heavy and b.GetEndAtomIdx() in heavy and smi in ('[CH]=O', '[CH][O]')))
    labs = draw(ringast.labels(2))
    atoms = [dict(prefix=None, symbol=mol.GetAtomWithIdx(i).GetSymbol(), suffix='?', label=labs[k], constraints=[]) for k, i in enumerate(pair)]
    frag = dict(molprefix=[], name='r', atoms=atoms, tree=[[1, 0, {1: 'single', 2: 'double', 3: 'triple'}[order]]], ringbonds=[], stereo=[])
    r = [mol.GetAtomWithIdx(i).GetNumRadicalElectrons() for i in pair]
    bond_edits, rad_edits = [], []
    o = order
    for _ in range(draw(st.integers(2, 3))):
        opts = []
        if o < 3 and min(r) >= 1:
            opts.append('inc')
        if o > 1:
            opts.append('dec')
        opts.append('set')
        if not bond_edits:
            opts.append('reform')         # break the bond and form it again with another order
        kind = draw(st.sampled_from(opts))
        if kind == 'inc':
            bond_edits.append(['inc-bond', draw(st.sampled_from([0, 1])), None])
            o += 1
            r = [x - 1 for x in r]
            rad_edits += [['dec-rad', 0], ['dec-rad', 1]]
        elif kind == 'dec':
            bond_edits.append(['dec-bond', draw(st.sampled_from([0, 1])), None])
            o -= 1
            r = [x + 1 for x in r]
            rad_edits += [['inc-rad', 0], ['inc-rad', 1]]
        elif kind == 'reform':
            new = draw(st.sampled_from([k for k in (1, 2, 3) if k - o <= min(r)]))
            names = {1: 'single', 2: 'double', 3: 'triple'}
            bond_edits += [['break', 0, 1, names[o]], ['form', 0, 1, names[new] if new != 1 or draw(st.booleans()) else None]]
            d = new - o
            r = [x - d for x in r]
            rad_edits += [['dec-rad' if d > 0 else 'inc-rad', a] for _ in range(abs(d)) for a in (0, 1)]
            o = new
        else:
            new = draw(st.sampled_from([k for k in (1, 2, 3) if k - o <= min(r)]))
            bond_edits.append(['modify-bond', 0, 1, {1: 'single', 2: 'double', 3: 'triple'}[new]])
            d = new - o
            r = [x - d for x in r]
            rad_edits += [['dec-rad' if d > 0 else 'inc-rad', a] for _ in range(abs(d)) for a in (0, 1)]
            o = new
    bond_edits = [[e[0], e[1], 1 - e[1]] if e[0] in ('inc-bond', 'dec-bond') else e for e in bond_edits]
    # radical edits commute with everything: put them anywhere between the bond edits, which keep their order
    edits = list(bond_edits)
    for e in rad_edits:
        edits.insert(draw(st.integers(0, len(edits))), e)
    rule = dict(name='same', rname='r1', reactant=frag, edits=edits)
    return dict(kind='rule', rule=rule, layout=draw(ringast.layout()), smiles=smi, directed=True, then=[smi])


@st.composite
def rule_case(draw):
    if draw(st.integers(0, 9)) == 0:
        return draw(ring_closure_case())
    if draw(st.integers(0, 7)) == 0:
        return draw(same_bond_case())
    smi = draw(st.one_of(st.sampled_from(MOLS), molgen.gas(5, stereo=False), molgen.radical(4)))
    mol = Chem.MolFromSmiles(smi)
    kek = draw(st.booleans())
    if kek and mol is not None:
        Chem.Kekulize(mol, clearAromaticFlags=True)       # the molecule in Kekule form (explicit single/double ring bonds)
    directed = draw(st.integers(0, 2)) > 0 and mol is not None
    frag = None
    if directed:
        mm = ringref.MolModel(Chem.AddHs(mol))
        frag = draw(ringast.directed_fragment(mm, max_atoms=draw(st.sampled_from([1, 2, 2, 3, 4])), perturb=False))
        for a in frag['atoms']:
            a['constraints'] = []
            a['prefix'] = None
            if a['symbol'] not in ('C', 'H', 'O'):
                a['symbol'] = {'$': 'C', 'X': 'C', 'heavy atom': 'C', '&': 'O', 'heteroatom': 'O'}.get(a['symbol'], 'C')
            if a['suffix'] not in (None, '.', '?'):
                a['suffix'] = '?'
        frag['tree'] = [[i, j, k if k in ('single', 'double', 'triple') else 'single'] for i, j, k in frag['tree']]
        frag['ringbonds'] = []
        frag['molprefix'] = []
    r = draw(ruleast.rule(frag=frag))
    return dict(kind='rule', rule=r, layout=draw(ringast.layout()), smiles=smi, directed=directed,
                then=draw(st.lists(st.sampled_from(MOLS), max_size=2)), kekule=kek)


def run_and_compare(ctx, q, rule, text, smi, note='', kekule=False):
    """run an already-read rule object on one molecule and compare with the reference edit; returns number of matches or None"""
    mol = Chem.MolFromSmiles(smi)
    if mol is None:
        return None
    if kekule:
        Chem.Kekulize(mol, clearAromaticFlags=True)
    mh = Chem.AddHs(mol)
    mm = ringref.MolModel(mh)
    g0 = rxnref.graph_of(mh)
    want_matches = sorted(ringref.matches(mm, ringast.to_ref(dict(rule['reactant'], name='r'))))
    expected = collections.Counter()
    for asg in want_matches:
        try:
            expected[rxnref.ghash(rxnref.apply_edits(g0, rule['edits'], asg))] += 1
        except rxnref.IllDefined:
            return None
    try:
        prods = q.RunReactants(Chem.Mol(mol))
    except Exception as e:
        ctx.fail('run-raises:%s%s' % (type(e).__name__, note and ':rule-object-reused'), 'RunReactants raised %s: %s\nrule: %s\nmolecule: %s %s' % (type(e).__name__, str(e)[:200], text, smi, note))
        return None
    ctx.count()
    got = collections.Counter(rxnref.ghash(rxnref.union_graph(list(ps))) for ps in prods)
    if len(prods) != len(want_matches) or got != expected:
        ctx.fail('products-differ-from-declared-edit%s' % (':rule-object-reused' if note else ''),
                 '%d product sets for %d matches / products differ from the declared edit\nrule: %s\nmolecule: %s %s'
                 % (len(prods), len(want_matches), text, smi, note))
    return len(want_matches)


def check_rule(ctx, case):
    m = _pg()
    rule, smi = case['rule'], case['smiles']
    text = ruleast.render(rule, case.get('layout'))
    bal = ruleast.balance(rule)
    pred = 'invalid' if bal is None else ('balanced' if all(abs(b) < 1e-9 for b in bal) else 'unbalanced')
    ctx.event('predicted:%s' % pred)
    for e in rule['edits']:
        ctx.event('edit:%s' % e[0])
    try:
        q = m['Read'](text)
        out = 'accepted'
    except m['RRE'] as e:
        out, err = 'RINGReaderError', str(e)
    except m['RE'] as e:
        out, err = type(e).__name__, str(e)
    except Exception as e:
        ctx.case(nontrivial=True, key=[text, smi])
        ctx.fail('read-raises:%s' % type(e).__name__, 'reading raised %s: %s\n%s' % (type(e).__name__, str(e)[:200], text))
        return
    if pred == 'unbalanced':
        ctx.case(nontrivial=True, key=[text, 'read'], sample=dict(rule=text, electron_balance=bal, outcome=out))
        if out == 'accepted':
            ctx.fail('unbalanced-rule-accepted', 'electron balance per labelled atom %s, but the rule was read without error:\n%s' % (bal, text))
        elif out != 'RINGReaderError':
            ctx.fail('unbalanced-rule-wrong-error:%s' % out, '%s\n%s' % (err[:200], text))
        return
    if pred == 'invalid':
        ctx.event('skip:structurally-invalid-for-the-reader')
        return
    if out != 'accepted':
        ctx.case(nontrivial=True, key=[text, 'read'])
        ctx.fail('balanced-rule-rejected:%s' % out, 'balanced rule rejected: %s\n%s' % (err[:300], text))
        return
    mol = Chem.MolFromSmiles(smi)
    if mol is None:
        return
    if case.get('kekule'):
        Chem.Kekulize(mol, clearAromaticFlags=True)
        if any(a.GetIsAromatic() for a in Chem.MolFromSmiles(smi).GetAtoms()):
            ctx.event('input:aromatic-molecule-in-Kekule-form')
    mh = Chem.AddHs(mol)
    mm = ringref.MolModel(mh)
    g0 = rxnref.graph_of(mh)
    want_matches = sorted(ringref.matches(mm, ringast.to_ref(dict(rule['reactant'], name='r'))))
    expected = collections.Counter()
    ill = 0
    for asg in want_matches:
        try:
            h = rxnref.apply_edits(g0, rule['edits'], asg)
        except rxnref.IllDefined:
            ill += 1
            continue
        expected[rxnref.ghash(h)] += 1
    ctx.case(nontrivial=bool(want_matches), key=[text, smi],
             sample=dict(rule=text, molecule=smi, matches=len(want_matches), ill_defined=ill))
    ctx.event('matches:%s' % ('0' if not want_matches else '1' if len(want_matches) == 1 else '2-6' if len(want_matches) <= 6 else '>6'))
    ctx.event('generator:%s' % ('molecule-directed' if case.get('directed') else 'grammar'))
    if ill:
        ctx.event('skip:ill-defined-edit-on-this-molecule')
        return
    try:
        prods = q.RunReactants(Chem.Mol(mol))
    except Exception as e:
        ctx.fail('run-raises:%s' % type(e).__name__, 'RunReactants raised %s: %s\nrule: %s\nmolecule: %s' % (type(e).__name__, str(e)[:200], text, smi))
        return
    if len(prods) != len(want_matches):
        ctx.fail('product-sets-vs-matches', '%d product sets for %d matches of the reactant pattern %s\nrule: %s\nmolecule: %s'
                 % (len(prods), len(want_matches), want_matches[:4], text, smi))
        return
    got = collections.Counter()
    for ps in prods:
        ug = rxnref.union_graph(list(ps))
        if rxnref.element_counts(ug) != rxnref.element_counts(g0):
            ctx.fail('atoms-not-conserved', 'product set %s has element counts %s, reactant %s\nrule: %s\nmolecule: %s'
                     % ([Chem.MolToSmiles(p) for p in ps], dict(rxnref.element_counts(ug)), dict(rxnref.element_counts(g0)), text, smi))
            return
        got[rxnref.ghash(ug)] += 1
        ctx.count()
    if got != expected:
        shown = [[Chem.MolToSmiles(p) for p in ps] for ps in prods][:4]
        ops = '+'.join(sorted(set(e[0] for e in rule['edits'])))
        ctx.fail('products-differ-from-declared-edit:%s' % ops, 'products %s are not the declared edit applied at the matches %s\nrule: %s\nmolecule: %s'
                 % (shown, want_matches[:4], text, smi))
        return
    # one rule object, several molecules in a row (and the first one again): earlier runs must not leak into later ones
    for other in list(case.get('then') or []) + [smi]:
        run_and_compare(ctx, q, rule, text, other, note='(after running the same rule object on %s)' % smi, kekule=bool(case.get('kekule')))
        ctx.event('rule-object-reused')


FAMILIES = [
    Family('rules', lambda ctx, case: check_rule(ctx, case), strategy=lambda tier: rule_case(), n=(12000, 400000)),
]
