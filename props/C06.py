"""C06 - No property is returned outside the valid range unsignalled.

Oracle: validity predicate at range boundaries.  For a temperature T and an object made of constituents,
V = constituents whose effective range excludes T.  V empty -> every property all constituents have data for is a
finite real.  V non-empty -> an exception if some member of V has Cp data, else an exception or an
IncompleteDataWarning; a silently returned number is the violation.  The estimate's reported range is the
intersection of the declared constituent ranges.
"""
import math
import numbers
import warnings

import numpy as np
from hypothesis import strategies as st

from vlib.core import Family
from vlib import thermogen as TG

PROPERTY = 'C06'
RULE = ('single correlations (with/without Cp data, with/without declared range) and estimates over 1-6 synthetic '
        'constituents with nested/overlapping/touching/disjoint ranges, plus every group of every shipped library; each '
        'evaluated for Cp/R, H/RT, S/R, G/RT at every bound b of every constituent and of the estimate: b(1-1e-9), '
        'nextafter inwards, b, nextafter outwards, b(1+1e-9), and at 0.1*lo, 10*hi, 0, -50, +inf and mid-range. '
        'Non-trivial = T within 1e-6 relative of a bound or outside the range, for an object with >= 1 Cp point. '
        'Distinct = distinct (object, T, property).')
ASSUMPTIONS = ['NaN temperatures and non-positive range bounds are outside the quantifier',
               'T_ref lies inside the declared range (every constructor path with Cp data enforces it)',
               'a constituent with Cp data but no declared range (reports None, can only be evaluated on its table span) is '
               'classified separately: for it only "outside the table => exception" is asserted',
               'disjoint constituent ranges: only "no number is returned" is asserted']

_m = {}


def _pg():
    if not _m:
        from pgradd.Error import (IncompleteDataError, IncompleteDataWarning, OutsideCorrelationError)
        _m.update(IDE=IncompleteDataError, IDW=IncompleteDataWarning, OCE=OutsideCorrelationError)
    return _m


PROPS = ['CpoR', 'HoRT', 'SoR', 'GoRT']


def has_prop(spec, X):
    if X == 'CpoR':
        return bool(spec['Ts'])
    if X == 'HoRT':
        return spec['H'] is not None
    if X == 'SoR':
        return spec['S'] is not None
    return spec['H'] is not None and spec['S'] is not None


def bound_temps(bounds):
    out = []
    for b in bounds:
        out += [b * (1 - 1e-9), float(np.nextafter(b, -np.inf)), b, float(np.nextafter(b, np.inf)), b * (1 + 1e-9)]
    return out


def classify_T(T, rng):
    if rng is None:
        return 'no-range'
    if rng[0] == 0:
        rng = (1e-300, rng[1])
    lo, hi = rng
    if T < lo or T > hi:
        near = min(abs(T - lo) / lo, abs(T - hi) / hi) <= 1e-6 if math.isfinite(T) else False
        return 'just-outside' if near else 'far-outside'
    near = min(abs(T - lo) / lo, abs(T - hi) / hi) <= 1e-6
    return 'at-bound' if T in (lo, hi) else ('just-inside' if near else 'inside')


def evaluate(obj, X, T):
    """-> ('value', v, warned) | ('raise', exc)"""
    m = _pg()
    with warnings.catch_warnings(record=True) as w:
        warnings.simplefilter('always')
        try:
            v = getattr(obj, 'get_' + X)(T)
        except Exception as e:
            return ('raise', e, False)
    warned = any(issubclass(x.category, m['IDW']) for x in w)
    return ('value', v, warned)


def judge(ctx, label, obj, specs, X, T, what):
    """apply the oracle to one evaluation; specs = constituent specs"""
    m = _pg()
    if 0 <= T < 1e-3 and any(s['range'] and s['range'][0] == 0 for s in specs):
        # H/RT and S/R at (or a hair above) absolute zero inside a range that starts at 0 K: division by T, log(0) -
        # nothing the property can demand a finite number for
        ctx.event('skip:T~0-inside-a-range-starting-at-0K')
        return
    if not all(has_prop(s, X) for s in specs):
        ctx.event('skip:property-without-data')
        return
    eff = [TG.effective_range(s) for s in specs]
    V = [s for s, r in zip(specs, eff) if r is not None and (T < r[0] or T > r[1])]
    undeclared = any(s['Ts'] and not s['range'] for s in specs)
    res = evaluate(obj, X, T)
    has_cp = any(s['Ts'] for s in specs)
    declared = [tuple(s['range']) for s in specs if s['range']]
    rng = (max(r[0] for r in declared), min(r[1] for r in declared)) if declared else None
    pos = classify_T(T, rng)
    ctx.case(nontrivial=has_cp and pos in ('just-outside', 'far-outside', 'at-bound', 'just-inside'),
             key=[label, X, T], sample=dict(object=label, prop=X, T=T, position=pos, outcome=res[0]))
    ctx.event('position:%s:%s' % (pos, 'has-Cp' if has_cp else 'no-Cp'))
    ctx.event('constituents:%d' % min(len(specs), 6))
    if not V:
        # inside every effective range
        if res[0] == 'raise':
            ctx.fail('inside-range-raises:%s:%s' % (X, type(res[1]).__name__),
                     '[%s] %s(%r) raised %s: %s although T is inside every constituent range %s'
                     % (what, X, T, type(res[1]).__name__, res[1], eff))
            return
        v = res[1]
        if not (isinstance(v, numbers.Real) and not isinstance(v, bool) and math.isfinite(v)):
            ctx.fail('inside-range-not-finite-real:%s' % X, '[%s] %s(%r) = %r (%s)' % (what, X, T, v, type(v).__name__))
        return
    # outside at least one constituent's range
    v_has_cp = any(s['Ts'] for s in V)
    if res[0] == 'raise':
        if not isinstance(res[1], (m['OCE'], m['IDE'])):
            ctx.fail('outside-range-wrong-exception:%s:%s' % (X, type(res[1]).__name__),
                     '[%s] %s(%r) raised %s: %s' % (what, X, T, type(res[1]).__name__, res[1]))
        ctx.event('outside:raised')
        return
    if v_has_cp:
        ctx.fail('outside-range-returns-number:%s:%s' % (X, 'N1-undeclared-range' if undeclared and not any(
            s['Ts'] and s['range'] for s in V) else 'has-Cp'),
                 '[%s] %s(%r) = %r returned silently; T is outside the range of a constituent with Cp data %s'
                 % (what, X, T, res[1], [TG.effective_range(s) for s in V]))
        return
    if not res[2]:
        ctx.fail('outside-range-no-warning:%s' % X,
                 '[%s] %s(%r) = %r returned without IncompleteDataWarning; T is outside %s of constituents without Cp data'
                 % (what, X, T, res[1], [TG.effective_range(s) for s in V]))
        return
    ctx.event('outside:warned')


def judge_array(ctx, obj, specs, what):
    """Cp/R for an ARRAY of temperatures (the correlations vectorise it): an array with one element outside the range of a
    constituent that has Cp data must raise, like the scalar request for that element; an array inside every range must
    come back as finite numbers of the same shape"""
    if not all(has_prop(s, 'CpoR') for s in specs):
        return
    eff = [TG.effective_range(s) for s in specs]
    if any(r is None for r in eff):
        return
    lo, hi = max(r[0] for r in eff), min(r[1] for r in eff)
    if not (lo <= hi):
        return
    inside = [lo, 0.5 * (lo + hi), hi]
    res = evaluate(obj, 'CpoR', np.array(inside))
    ctx.count()
    ctx.event('array:inside')
    if res[0] == 'raise':
        ctx.fail('inside-range-raises:CpoR-array:%s' % type(res[1]).__name__, '[%s] CpoR(array(%r)) raised %s: %s although every element '
                 'is inside every constituent range %s' % (what, inside, type(res[1]).__name__, res[1], eff))
    else:
        v = res[1]
        if not (isinstance(v, np.ndarray) and v.shape == (3,) and np.all(np.isfinite(v))):
            ctx.fail('inside-range-not-finite-real:CpoR-array', '[%s] CpoR(array(%r)) = %r' % (what, inside, v))
    for out in (lo * (1 - 1e-9) if lo > 0 else -1e-9, hi * (1 + 1e-9), lo - 75.0, hi + 400.0, 0.0, -50.0):
        if lo <= out <= hi:
            continue
        for arr in ([inside[1], out], [out, inside[1], inside[2]]):
            res = evaluate(obj, 'CpoR', np.array(arr))
            ctx.count()
            ctx.event('array:one-element-outside')
            if res[0] != 'raise':
                ctx.fail('outside-range-returns-number:CpoR-array', '[%s] CpoR(array(%r)) = %r returned silently; %r is outside the '
                         'common range [%r, %r] of constituents with Cp data' % (what, arr, res[1], out, lo, hi))
                return


# -- single correlations -------------------------------------------------------------------
def single_case():
    return TG.group_spec(from_zero=True).map(lambda s: dict(kind='single', spec=s))


def temps_for(ranges, extra=()):
    bounds = sorted(set(b for r in ranges if r for b in r))
    Ts = bound_temps(bounds) + list(extra)
    if bounds:
        Ts += [0.1 * bounds[0], 10 * bounds[-1], 0.5 * (bounds[0] + bounds[-1])]
    Ts += [0.0, -50.0, float('inf')]
    return Ts


def check_single(ctx, case):
    spec = case['spec']
    obj = TG.build_group(spec)
    eff = TG.effective_range(spec)
    # the reported range is the declared one
    got = obj.get_range()
    want = tuple(spec['range']) if spec['range'] else None
    if (got is None) != (want is None) or (got is not None and tuple(got) != want):
        ctx.fail('single-get_range', 'get_range() = %r, declared %r' % (got, want))
    for T in temps_for([eff], extra=[spec['T_ref']] + spec['Ts'][:2]):
        for X in PROPS:
            judge(ctx, 'single:%r' % (spec,), obj, [spec], X, T, 'single correlation %s' % _short(spec))
    judge_array(ctx, obj, [spec], 'single correlation %s' % _short(spec))
    # a merge that is refused (conflicting data, overwrite not allowed) must not move the range: afterwards the object reports
    # the range it had, and inside it every property it has data for is still a finite number
    status, before, after = TG.refused_update(obj, spec)
    ctx.count()
    ctx.event('refused-update:%s' % status)
    if status == 'refused':
        got = obj.get_range()
        if (got is None) != (want is None) or (got is not None and tuple(got) != want):
            ctx.fail('range-changed-by-refused-update', 'get_range() = %r after a refused update, declared %r (%s)' % (got, want, _short(spec)))
        else:
            for T in temps_for([eff])[:8]:
                for X in PROPS:
                    judge(ctx, 'single-after-refused-update:%r' % (spec,), obj, [spec], X, T, 'single correlation %s after a refused update' % _short(spec))
    elif status not in ('no-conflict-possible',):
        ctx.fail('conflicting-update-not-refused:%s' % status, 'update with conflicting data (no overwrite) on %s: %s' % (_short(spec), status))
    # a COPY is a separate correlation: stripping the copy of its heat-capacity points (one by one) leaves the original - its data,
    # its range and what it answers inside and outside the range - as it was
    if spec['Ts'] and status in ('refused', 'no-conflict-possible'):
        before = TG.state_of(obj)
        try:
            twin = obj.copy()
            for T in list(spec['Ts']):
                twin.del_ND_Cp(T)
        except Exception as e:
            ctx.event('copy-strip-raised:%s' % type(e).__name__)
        else:
            ctx.count()
            ctx.event('copy-stripped')
            if TG.state_of(obj) != before:
                ctx.fail('original-changed-through-its-copy', 'after deleting the Cp points of obj.copy(): original %s -> %s' % (before, TG.state_of(obj)))
            else:
                for T in temps_for([eff])[:6]:
                    for X in PROPS:
                        judge(ctx, 'single-after-copy-stripped:%r' % (spec,), obj, [spec], X, T, 'single correlation %s after its copy was stripped' % _short(spec))
    # the valid range is the one the correlation reports NOW: after it was narrowed through the public set_range(), temperatures
    # between the old and the new bounds (all of them asked for above, while they were still inside) are outside
    if want is not None and spec['Ts'] and want[1] - want[0] > 8 and status in ('refused', 'no-conflict-possible'):
        w = want[1] - want[0]
        if (len(spec['Ts']) + int(w)) % 3:
            new = (want[0] + w / 4.0, want[1] - w / 4.0)
        else:
            # ... and after it was widened, temperatures between the old and the new bounds are inside
            new = (want[0] / 2.0, want[1] + w / 4.0)
            ctx.event('range-widened')
        try:
            obj.set_range(new)
            got = obj.get_range()
        except Exception as e:
            ctx.event('set_range-raised:%s' % type(e).__name__)
        else:
            ctx.count()
            ctx.event('range-narrowed')
            if got is None or tuple(got) != new:
                ctx.fail('single-get_range-after-set_range', 'get_range() = %r after set_range(%r)' % (got, new))
            else:
                spec2 = dict(spec, range=list(new))
                for T in sorted(set(temps_for([eff])[:12] + temps_for([new])[:12] + [want[0], want[1]])):
                    for X in PROPS:
                        judge(ctx, 'single-after-narrowing:%r' % (spec2,), obj, [spec2], X, T, 'single correlation %s after set_range(%r)' % (_short(spec), new))


def _short(s):
    return 'N=%d range=%s T_ref=%r' % (len(s['Ts']), s['range'], s['T_ref'])


# -- estimates ----------------------------------------------------------------------------------
@st.composite
def estimate_case(draw):
    n = draw(st.integers(1, 6))
    specs = [draw(TG.group_spec(H='yes', S='yes', from_zero=True)) for _ in range(n)]
    # relate the ranges: shift copies so that ranges nest / overlap / touch / are disjoint
    rel = draw(st.sampled_from(['as-drawn', 'as-drawn', 'touching', 'disjoint', 'identical']))
    if rel in ('touching', 'disjoint') and n >= 2 and specs[0]['range'] and specs[1]['range']:
        a, b = specs[0], specs[1]
        shift = a['range'][1] - b['range'][0] + (0.0 if rel == 'touching' else 25.0)
        b['Ts'] = [t + shift for t in b['Ts']]
        b['T_ref'] += shift
        b['range'] = [b['range'][0] + shift, b['range'][1] + shift]
    if rel == 'identical' and n >= 2:
        specs[1] = dict(specs[0])
    cnts = [draw(TG.counts()) for _ in range(n)]
    grow = None
    if draw(st.integers(0, 2)) == 0:
        grow = dict(which=draw(st.integers(0, 5)), down=draw(st.sampled_from([0.0, 1.0, 40.0])), up=draw(st.sampled_from([0.0, 1.0, 150.0, 500.0])))
    return dict(kind='estimate', specs=specs, counts=cnts, rel=rel, grow=grow)


def check_estimate(ctx, case):
    specs, cnts = case['specs'], case['counts']
    lib = TG.build_library(specs)
    mapping = {'G%d' % i: c for i, c in enumerate(cnts)}
    declared = [tuple(s['range']) for s in specs if s['range']]
    want = (max(r[0] for r in declared), min(r[1] for r in declared)) if declared else None
    ctx.event('estimate:ranges:%s' % case.get('rel'))
    try:
        est = lib.Estimate(mapping, 'thermochem')
    except Exception as e:
        if want is not None and want[0] > want[1]:
            ctx.event('estimate:disjoint-rejected-at-construction')
            ctx.case(nontrivial=True, key=['disjoint', specs, cnts], sample=dict(ranges=declared, outcome=type(e).__name__))
            return
        ctx.fail('estimate-construction:%s' % type(e).__name__, 'Estimate over ranges %s raised %s: %s'
                 % (declared, type(e).__name__, e))
        return
    got = est.get_range()
    if (got is None) != (want is None) or (got is not None and (got[0] != want[0] or got[1] != want[1])):
        ctx.fail('estimate-range-not-intersection', 'get_range() = %r, intersection of %s is %r' % (got, declared, want))
    if want is not None and want[0] > want[1]:
        # disjoint: no temperature is valid; nothing may come back as a number
        for T in temps_for(declared):
            for X in PROPS:
                r = evaluate(est, X, T)
                if r[0] == 'value' and all(has_prop(s, X) for s in specs) and any(s['Ts'] for s in specs if s['range']):
                    V = [s for s in specs if TG.effective_range(s) and not (TG.effective_range(s)[0] <= T <= TG.effective_range(s)[1])]
                    if any(s['Ts'] for s in V):
                        ctx.fail('disjoint-ranges-return-number:%s' % X, '%s(%r) = %r over disjoint ranges %s' % (X, T, r[1], declared))
        ctx.case(nontrivial=True, key=['disjoint', specs, cnts], sample=dict(ranges=declared, outcome='constructed'))
        return
    ranges = [TG.effective_range(s) for s in specs] + [want]
    label = 'estimate:%r:%r' % (specs, cnts)
    for T in temps_for(ranges):
        for X in PROPS:
            judge(ctx, label, est, specs, X, T, 'estimate over %d constituents with ranges %s' % (len(specs), [TG.effective_range(s) for s in specs]))
    judge_array(ctx, est, specs, 'estimate over %d constituents with ranges %s' % (len(specs), [TG.effective_range(s) for s in specs]))
    # the library's data grows (a later file widens one group's declared range - ranges merge by union): an estimate
    # asked for AFTERWARDS is over the groups as they are now
    grow = case.get('grow')
    ks = [k for k, s in enumerate(specs) if s['range']]
    if grow and ks:
        k = ks[grow['which'] % len(ks)]
        old = specs[k]['range']
        new = [old[0] - (grow['down'] if old[0] - grow['down'] > 0 else 0.0), old[1] + grow['up']]
        donor = TG.build_library([dict(H=None, S=None, Ts=[], Cps=[], T_ref=specs[k]['T_ref'], range=new)], names=['G%d' % k])
        try:
            lib.Update(donor)
            est2 = lib.Estimate(mapping, 'thermochem')
        except Exception as e:
            ctx.fail('estimate-after-update:%s' % type(e).__name__, 'Update() with a range-only entry %s for G%d, then Estimate, raised %s: %s'
                     % (new, k, type(e).__name__, e))
            return
        specs2 = [dict(s) for s in specs]
        specs2[k]['range'] = new
        # names sharing the widened spec object (identical relation) are separate correlation objects in the library
        declared2 = [tuple(s['range']) for s in specs2 if s['range']]
        want2 = (max(r[0] for r in declared2), min(r[1] for r in declared2))
        got2 = est2.get_range()
        ctx.event('estimate:after-update')
        ctx.count()
        if got2 is None or got2[0] != want2[0] or got2[1] != want2[1]:
            ctx.fail('estimate-range-not-intersection:after-update', 'after Update() widened G%d from %s to %s a new Estimate reports get_range() = %r, '
                     'intersection of %s is %r' % (k, old, new, got2, declared2, want2))
            return
        if want2[0] <= want2[1]:
            label2 = 'estimate-after-update:%r:%r' % (specs2, cnts)
            for T in temps_for([TG.effective_range(s) for s in specs2] + [want2]):
                for X in PROPS:
                    judge(ctx, label2, est2, specs2, X, T, 'estimate (made after Update() widened G%d to %s) over ranges %s'
                          % (k, new, [TG.effective_range(s) for s in specs2]))


# -- shipped groups ----------------------------------------------------------------------------------
def enum_shipped(tier):
    from props.C05 import enum_shipped as e5
    return e5(tier)


def spec_of(g):
    Ts = sorted(g.ND_Cp_data) if g.ND_Cp_data else []
    r = g.get_range()
    return dict(H=g.ND_H_ref, S=g.ND_S_ref, Ts=[float(t) for t in Ts], Cps=[float(g.ND_Cp_data[t]) for t in Ts],
                T_ref=float(g.T_ref), range=[float(r[0]), float(r[1])] if r is not None else None)


def check_shipped(ctx, case):
    from props.C05 import lib
    L = lib(case['lib'])
    ps = L[case['group']]
    if 'thermochem' not in ps:
        ctx.event('shipped:no-thermochem')
        return
    g = ps['thermochem']
    try:
        spec = spec_of(g)
        for k in ('H', 'S'):
            if spec[k] is not None and not isinstance(spec[k], numbers.Real):
                raise TypeError('non-numeric %s' % k)
    except Exception:
        ctx.event('shipped:non-numeric-data(C14)')
        return
    eff = TG.effective_range(spec)
    for T in temps_for([eff], extra=[spec['T_ref']]):
        for X in PROPS:
            judge(ctx, 'shipped:%s/%s' % (case['lib'], case['group']), g, [spec], X, T,
                  'shipped %s/%s %s' % (case['lib'], case['group'], _short(spec)))
    judge_array(ctx, g, [spec], 'shipped %s/%s %s' % (case['lib'], case['group'], _short(spec)))


# -- estimates over the shipped libraries: the property read literally ---------------------------------------------------------------
def enum_shipped_estimates(tier):
    from vlib import molgen
    from props.C15 import GAS, SURF
    for L in shipped_libs():
        gas = L in ('BensonGA', 'PPY')
        metal = None if gas else ('Ru' if L == 'XieGA2022' else 'Pt')
        pool = list(GAS) + list(molgen.REMAPPED) + (list(molgen.witness_pool(None)) if gas else
                                                    [x.replace('{M}', metal) for x in SURF + molgen.REMAPPED_SURFACE] + list(molgen.witness_pool(metal)))
        seen = set()
        for smi in pool:
            if smi not in seen:
                seen.add(smi)
                yield dict(kind='shipped-estimate', lib=L, smiles=smi)


def shipped_libs():
    from vlib import shipped
    return shipped.LIBS


def check_shipped_estimate(ctx, case):
    """inside the range an estimate REPORTS every property it has data for is a finite number; outside it nothing comes back silently"""
    from props.C05 import lib as load
    m = _pg()
    L = load(case['lib'])
    smi = case['smiles']
    try:
        with warnings.catch_warnings():
            warnings.simplefilter('ignore')
            d = L.GetDescriptors(smi)
            est = L.Estimate(d, 'thermochem')
    except Exception:
        ctx.event('shipped-estimate:not-estimable')
        return
    r = est.get_range()
    groups = [L[k]['thermochem'] for k in d if d[k] != 0]
    ctx.case(nontrivial=len(groups) >= 2, key=['shipped-estimate', case['lib'], smi], sample=dict(library=case['lib'], molecule=smi, reported_range=None if r is None else [float(r[0]), float(r[1])]))
    if r is None or not (r[0] <= r[1]):
        ctx.event('shipped-estimate:no-range')
        return
    ctx.event('shipped-estimate:%s' % case['lib'])
    lo, hi = float(r[0]), float(r[1])
    check_standard_errors(ctx, L, est, lo, hi, '%s %s' % (case['lib'], smi))
    for X in PROPS:
        need = {'CpoR': lambda g: bool(g.ND_Cp_data), 'HoRT': lambda g: g.ND_H_ref is not None, 'SoR': lambda g: g.ND_S_ref is not None,
                'GoRT': lambda g: g.ND_H_ref is not None and g.ND_S_ref is not None}[X]
        if not all(need(g) for g in groups) or not all(g.ND_Cp_data for g in groups):
            continue
        for T in (lo, hi, 0.5 * (lo + hi), lo + 0.97 * (hi - lo), lo + 0.03 * (hi - lo)):
            res = evaluate(est, X, T)
            ctx.count()
            if res[0] == 'raise':
                ctx.fail('inside-reported-range-raises:%s:%s' % (X, type(res[1]).__name__), '[%s %s] %s(%r) raised %s: %s although the estimate reports the range (%r, %r)'
                         % (case['lib'], smi, X, T, type(res[1]).__name__, str(res[1])[:120], lo, hi))
                return
            if not (isinstance(res[1], numbers.Real) and math.isfinite(res[1])):
                ctx.fail('inside-reported-range-not-finite:%s' % X, '[%s %s] %s(%r) = %r' % (case['lib'], smi, X, T, res[1]))
                return
        for T in (lo * (1 - 1e-6) if lo > 0 else -1.0, hi * (1 + 1e-6)):
            res = evaluate(est, X, T)
            ctx.count()
            if res[0] != 'raise':
                ctx.fail('outside-reported-range-returns-number:%s' % X, '[%s %s] %s(%r) = %r, reported range (%r, %r)' % (case['lib'], smi, X, T, res[1], lo, hi))
                return


def check_standard_errors(ctx, L, est, lo, hi, tag):
    """the standard errors of an estimate (libraries with uncertainty data) are properties of it like the others: a finite number
    inside the range, an error outside the range and outside the span of the library's RMSE correlation"""
    if not getattr(L, 'uq_contents', None):
        return
    try:
        rm = L.uq_contents['RMSE'].thermochem
        ts = sorted(float(t) for t in rm.ND_Cp_data)
    except Exception:
        return
    lo_all, hi_all = min(lo, ts[0]), max(hi, ts[-1])
    for X in ('HoRT_SE', 'SoR_SE', 'CpoR_SE'):
        for T in (max(lo, ts[0]), 0.5 * (max(lo, ts[0]) + min(hi, ts[-1])), min(hi, ts[-1])):
            res = evaluate(est, X, T)
            ctx.count()
            if res[0] == 'raise' or not (isinstance(res[1], numbers.Real) and math.isfinite(res[1]) and res[1] >= 0):
                ctx.fail('standard-error-inside-range:%s' % X, '[%s] get_%s(%r) -> %r inside the range (%r, %r)' % (tag, X, T, res[1], lo, hi))
                return
        for T in (lo_all * (1 - 1e-6), hi_all * (1 + 1e-6), 0.5 * lo_all, 2.0 * hi_all, 0.0, -5.0, 1e6):
            if lo_all <= T <= hi_all:
                continue
            res = evaluate(est, X, T)
            ctx.count()
            ctx.event('standard-error:outside')
            if res[0] != 'raise':
                ctx.fail('outside-range-returns-number:%s' % X, '[%s] get_%s(%r) = %r returned silently; the estimate is valid on (%r, %r), the RMSE correlation is tabulated on (%r, %r)'
                         % (tag, X, T, res[1], lo, hi, ts[0], ts[-1]))
                return


def check_any(ctx, case):
    return {'single': check_single, 'estimate': check_estimate, 'shipped': check_shipped, 'shipped-estimate': check_shipped_estimate}[case['kind']](ctx, case)


FAMILIES = [
    Family('single', check_any, strategy=lambda tier: single_case(), n=(3000, 160000)),
    Family('estimates', check_any, strategy=lambda tier: estimate_case(), n=(2000, 60000)),
    Family('shipped', check_any, enumerate=enum_shipped),
    Family('shipped-estimates', check_any, enumerate=enum_shipped_estimates),
]
