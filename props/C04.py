"""C04 - A mixture's descriptors are the sum of its components'.

Oracle: metamorphic (additivity over the disconnected species 'A.B').
"""
import collections
import warnings

from hypothesis import strategies as st
from rdkit import Chem

from vlib.core import Family
from vlib import molgen, shipped
from props.C02 import WEIGHTS

PROPERTY = 'C04'
RULE = ('ordered pairs and triples of generated molecules per shipped scheme (gas, alkenes with cis/trans marks, aromatics, '
        'radicals, polycyclics, Pt/Ru adsorbates), incl. self-pairs, a failing (out-of-vocabulary) component, single atoms, '
        '[H][H] and bare metals; both orders A.B and B.A. Non-trivial = both components have >= 2 heavy atoms and at least one '
        'has a correction descriptor or a ring. Distinct = distinct (scheme, components in order).')
ASSUMPTIONS = ['molecules with ortho-fused aromatic rings are excluded from the pool (known finding of C02/C03)',
               'estimates of the pair compared with the sum of component estimates at 1e-9 relative (sampled)']
_m = {}


def _pg():
    if not _m:
        from pgradd.Error import PatternMatchError, GroupMissingDataError
        _m.update(PME=PatternMatchError, GMDE=GroupMissingDataError)
    return _m


# molecules that exercise correction descriptors, ring perception and aromaticity: pairs drawn from this pool make the
# interaction between the components' corrections / rings likely
RICH_POOL = ['C/C=C\\C', 'C/C=C/C', 'CC=C(C)C', 'CC=CC', 'C/C=C\\CC', 'CC(C)=C(C)C', 'C/C=C\\C=C', 'CC(C)C(C)C', 'CC(C)(C)C(C)C', 'CCC(C)CC',
             'CC(C)CC(C)C', 'C1CCOCC1', 'C1COCCO1', 'O1CCCCC1C', 'C1CCOC=C1', 'C1CCCCC1', 'C1CC1', 'C1CCC1', 'C1CCCC1', 'c1ccccc1', 'Cc1ccccc1',
             'Cc1ccccc1C', 'Oc1ccccc1', 'c1ccccc1-c1ccccc1', 'COC', 'CCOCC', 'COC(C)C', 'C=CC=C', 'C1=CCCCC1', 'C1=CC=CCC1', 'CC#CC', 'OCC(O)CO',
             # molecules with a group that is tabulated WITHOUT heat-capacity data (valid range 298-300 K only)
             'CC(C)C(C)=O', 'OCc1ccccc1', 'CC(C)C(C)=O', 'OCc1ccccc1']
RICH_SURFACE = ['[{M}]C([{M}])C', 'C[{M}]', '[{M}]CC[{M}]', 'OC[{M}]', 'C(=O)([{M}])O', '[{M}]C([{M}])C([{M}])([{M}])C', 'CC([{M}])O', '[{M}]OC', 'O=C[{M}]',
                '[{M}]C=C[{M}]', 'C1CCOCC1', 'CCC', 'CC(C)C', 'CCO', '[{M}]C([{M}])([{M}])C']


@st.composite
def mix_case(draw):
    L = draw(st.sampled_from(shipped.LIBS))
    w = dict(WEIGHTS[L], polycyclic=1)
    # molecules built from the scheme's own patterns: every correction descriptor gets to sit next to other components
    w['witness' if L not in ('BensonGA', 'PPY') else 'witness-gas'] = 4
    w['remapped' if L not in ('BensonGA', 'PPY') else 'remapped-gas'] = 5
    metal = 'Ru' if L == 'XieGA2022' else 'Pt'
    n = draw(st.sampled_from([2, 2, 2, 3]))
    comps = []
    for _ in range(n):
        c = draw(st.one_of(molgen.mixed(w, metal=metal, max_heavy=draw(st.sampled_from([4, 7, 10]))),
                           st.sampled_from(['[H][H]', 'C', 'O', '[%s]' % metal, '[H]', 'C=C', 'c1ccccc1', 'C1CCOCC1', 'C/C=C\\C', 'CC=C(C)C'])))
        comps.append(c)
    if draw(st.integers(0, 5)) == 0:
        comps[1] = comps[0]
    mode = draw(st.integers(0, 5))
    pool = RICH_POOL if L in ('BensonGA', 'PPY') else [x.replace('{M}', metal) for x in RICH_SURFACE]
    if mode in (0, 1):
        comps = [draw(st.sampled_from(pool)) for _ in range(n)]
    elif mode == 2:
        # a component with correction descriptors next to one that changes a whole-molecule property
        # (olefinic / aromatic / cyclic / radical / charged): whole-molecule pattern prefixes are what could couple them
        env = ['C=C', 'CC=CC', 'c1ccccc1', 'C1CCCCC1', 'C1CC1', 'C#C', '[CH3]', 'C=O', 'CO', 'O', 'C[CH2]', 'C=CC=C', 'Cc1ccccc1']
        comps = [draw(st.sampled_from(pool)), draw(st.sampled_from(env))]
        if draw(st.booleans()):
            comps.reverse()
    elif mode == 3 and draw(st.integers(0, 2)) == 0:
        # long chains: more than a thousand embeddings of one pattern in the disconnected species, not in a component
        comps = ['C' * draw(st.sampled_from([16, 21, 22, 24])), 'C' * draw(st.sampled_from([18, 22, 23, 26]))]
    return dict(kind='mix', lib=L, comps=comps)


def outcome(lib, smi):
    m = _pg()
    try:
        return ('ok', collections.Counter({str(k): v for k, v in lib.GetDescriptors(smi).items() if v != 0}))
    except m['PME']:
        return ('PatternMatchError', None)
    except Exception as e:
        return ('raises:%s' % type(e).__name__, str(e)[:150])


def same_out(a, b):
    if a[0] != b[0]:
        return False
    return a[0] != 'ok' or all(abs(a[1].get(k, 0) - b[1].get(k, 0)) <= 1e-12 for k in set(a[1]) | set(b[1]))


def check_mix(ctx, case):
    L, comps = case['lib'], case['comps']
    lib = shipped.lib(L)
    if any(molgen.has_fused_aromatic(c) for c in comps):
        ctx.event('skip:fused-aromatic-component')
        return
    if any(Chem.MolFromSmiles(c) is None for c in comps):
        return
    parts = [outcome(lib, c) for c in comps]
    for c, o in zip(comps, parts):
        if o[0].startswith('raises'):
            ctx.fail('component-%s' % o[0], '[%s] GetDescriptors(%r): %s' % (L, c, o[1]))
            return
    mols = [Chem.MolFromSmiles(c) for c in comps]          # keep the Mol objects alive while their RingInfo is used
    heavy = [m_.GetNumHeavyAtoms() for m_ in mols]
    ringy = any(m_.GetRingInfo().NumRings() for m_ in mols)
    corr = any(o[0] == 'ok' and any('(' not in k for k in o[1]) for o in parts)
    orders = [comps, list(reversed(comps))]
    for order in orders:
        smi = '.'.join(order)
        got = outcome(lib, smi)
        ctx.case(nontrivial=min(heavy) >= 2 and (ringy or corr), key=[L, order], sample=dict(scheme=L, mixture=smi, components=[o[0] for o in parts]))
        ctx.event('scheme:%s' % L)
        ctx.event('components:%d' % len(comps))
        if got[0].startswith('raises'):
            ctx.fail('mixture-%s' % got[0], '[%s] GetDescriptors(%r): %s' % (L, smi, got[1]))
            continue
        if any(o[0] != 'ok' for o in parts):
            ctx.event('expected:failure')
            if got[0] == 'ok':
                ctx.fail('mixture-of-undecomposable-component-decomposed', '[%s] %r decomposed as %s although a component fails %s'
                         % (L, smi, dict(got[1]), [o[0] for o in parts]))
            continue
        ctx.event('expected:sum')
        want = collections.Counter()
        for o in parts:
            want.update(o[1])
        if got[0] != 'ok':
            ctx.fail('mixture-fails-although-components-decompose', '[%s] %r raised PatternMatchError; components give %s' % (L, smi, dict(want)))
            continue
        diff = {k: (got[1].get(k, 0), want.get(k, 0)) for k in set(got[1]) | set(want) if abs(got[1].get(k, 0) - want.get(k, 0)) > 1e-12}
        if diff:
            kind = 'correction' if all('(' not in k for k in diff) else 'groups'
            ctx.fail('mixture-not-the-sum:%s' % kind, '[%s] %r: (mixture, sum of components) differ at %s' % (L, smi, diff))
            continue
        if order is comps and all(o[0] == 'ok' for o in parts) and len(comps) <= 3:
            # the species as ONE RDKit Mol object built (CombineMols) from component Mol objects that carry their hydrogens as
            # atoms and were themselves decomposed just before
            hm = [Chem.AddHs(Chem.MolFromSmiles(c)) for c in comps]
            pre = [outcome(lib, x) for x in hm]
            comb = hm[0]
            for x in hm[1:]:
                comb = Chem.CombineMols(comb, x)
            gm = outcome(lib, comb)
            ctx.count()
            ctx.event('mol-object-mixture')
            if any(not same_out(a, b) for a, b in zip(pre, parts)):
                ctx.fail('component-as-Mol-object-differs', '[%s] components %s as explicit-hydrogen Mol objects give %s, as SMILES %s' % (L, comps, pre, parts))
            elif gm[0] != 'ok' or any(abs(gm[1].get(k, 0) - want.get(k, 0)) > 1e-12 for k in set(gm[1]) | set(want)):
                ctx.fail('mixture-not-the-sum:Mol-object', '[%s] CombineMols of the explicit-hydrogen Mol objects of %s gives %s, the components sum to %s'
                         % (L, comps, gm if gm[0] != 'ok' else dict(gm[1]), dict(want)))
        if sum(map(ord, smi)) % 3 == 0 or any(c in ('CC(C)C(C)=O', 'OCc1ccccc1') for c in comps):
            m = _pg()
            try:
                with warnings.catch_warnings():
                    warnings.simplefilter('ignore')
                    tot = 0.0
                    ests = []
                    for c in comps:
                        ests.append(lib.Estimate(lib.GetDescriptors(c), 'thermochem'))
                        tot += ests[-1].get_HoRT(298.15)
                    emix = lib.Estimate(lib.GetDescriptors(smi), 'thermochem')
                    mix = emix.get_HoRT(298.15)
                    # all estimates exist now; entropy relative to the elements is additive too (the atoms of the pair are the
                    # atoms of its components), whatever was decomposed in between
                    try:
                        sel = [e.get_SoR(298.15, S_elements=True) for e in ests]
                        smix = emix.get_SoR(298.15, S_elements=True)
                    except Exception:
                        sel = None
                    # ... and at a temperature away from the reference one (a component without heat-capacity data answers with a
                    # warning there; where all sides answer, the answers add up)
                    try:
                        h400 = [e.get_HoRT(400.0) for e in ests]
                        hmix400 = emix.get_HoRT(400.0)
                    except Exception:
                        h400 = None
                ctx.count()
                if abs(mix - tot) > 1e-9 * max(1.0, abs(tot)):
                    ctx.fail('mixture-estimate-not-the-sum', '[%s] %r: H/RT %r, components sum to %r' % (L, smi, mix, tot))
                elif h400 is not None and abs(hmix400 - sum(h400)) > 1e-9 * max(1.0, abs(hmix400), sum(abs(x) for x in h400)):
                    ctx.fail('mixture-estimate-not-the-sum:400K', '[%s] %r: H/RT(400 K) %r, components give %s' % (L, smi, hmix400, h400))
                elif sel is not None and abs(smix - sum(sel)) > 1e-9 * max(1.0, abs(smix), sum(abs(x) for x in sel)):
                    ctx.fail('mixture-estimate-not-the-sum:elemental-entropy', '[%s] %r: S/R relative to the elements %r, components (estimated before the pair was decomposed, '
                             'evaluated afterwards) give %s' % (L, smi, smix, sel))
            except Exception:
                pass


FAMILIES = [
    Family('mixtures', lambda ctx, case: check_mix(ctx, case), strategy=lambda tier: mix_case(), n=(4000, 200000)),
]
