"""C15 - Results do not depend on what the library object did before.

Oracle: reference model = single-operation answers computed in FRESH interpreter processes (one per library and
molecule); a Hypothesis RuleBasedStateMachine interleaves loads, decompositions, estimates from ANY earlier
decomposition, evaluations (with and without the elemental reference) and merges over several library objects and
compares every value it obtains with that table; an invariant re-fingerprints every live library object.
"""
import json
import os
import subprocess
import sys
import warnings
from concurrent.futures import ThreadPoolExecutor

import hypothesis
from hypothesis import strategies as st
from hypothesis.stateful import RuleBasedStateMachine, rule, invariant, initialize, precondition, run_state_machine_as_test

from vlib.core import Family, REPO, HERE
from vlib import shipped

PROPERTY = 'C15'
RULE = ('histories of up to 30 (quick) / 40 (thorough) steps over {load a fresh object of library L, decompose molecule m with '
        'an object, estimate from any earlier decomposition of that object, evaluate H/RT, S/R, Cp/R, G/RT at a temperature with '
        'and without the elemental reference, merge an object of the same library into another, re-load}, over 3 libraries and '
        '6 molecules per library and shard; every value compared with a table computed in fresh processes (one per library x '
        'molecule). Non-trivial = before a checked result the history contains an operation on the same library object with a '
        'different molecule, or an operation on another library sharing its scheme file. Distinct = distinct histories.')
ASSUMPTIONS = ['fresh-process answers are the reference (same working tree, PYTHONHASHSEED=0)',
               'descriptors compared exactly, numbers at 1e-12 relative',
               'merges are between objects of the same bundled library (identical data, so no conflict is expected); libraries '
               'with an uncertainty block may refuse the merge with ValueError']

GAS = ['CC', 'CCC', 'CC(C)C', 'C=CC', 'CCO', 'CC=O', 'c1ccccc1', 'C/C=C\\C', 'C1CCCCC1', 'C[CH2]', 'CC(=O)O', 'COC', 'CCCCCC', 'C1CO1']
SURF = ['C([{M}])C', '[{M}]C([{M}])C', 'C(=O)([{M}])O', 'OC[{M}]', 'CC', 'CCO', '[{M}]CC[{M}]', 'C[{M}]', 'CC([{M}])O', 'O=C[{M}]', 'CCC',
        '[{M}]C([{M}])C([{M}])([{M}])C=O', '[{M}]C([{M}])C([{M}])([{M}])C', 'C([{M}])C[{M}]']
POOLS = {L: (GAS if L in ('BensonGA', 'PPY') else [s.replace('{M}', 'Ru' if L == 'XieGA2022' else 'Pt') for s in SURF]) for L in shipped.LIBS}
TS = [298.15, 400.0, 650.0, 1000.0, 1500.0]      # the last two are the upper ends of the shipped ranges (or beyond them)
SHARDS = {'quick': 8, 'thorough': 16}

WORKER = r'''
import sys, json, os, warnings
sys.path.insert(0, %(verif)r)
os.environ['VERIF_REPO'] = %(repo)r
from vlib.core import setup_imports
setup_imports()
from vlib import shipped
from props.C15 import single_operation
L, mols = json.loads(sys.argv[1])
print('BASEJSON' + json.dumps(single_operation(L, mols)))
'''


def evaluate_all(est):
    """every property on the grid, both elemental modes; outcome strings for failures"""
    out = {}
    with warnings.catch_warnings():
        warnings.simplefilter('ignore')
        for T in TS:
            for X, kw in (('HoRT', {}), ('CpoR', {}), ('SoR', {}), ('GoRT', {}), ('SoR', {'S_elements': True}), ('GoRT', {'S_elements': True})):
                key = '%s/%s/%s' % (X, 'el' if kw else 'abs', T)
                try:
                    out[key] = float(getattr(est, 'get_' + X)(T, **kw))
                except Exception as e:
                    out[key] = 'EXC:' + type(e).__name__
            # standard errors (libraries with an uncertainty block; the others answer with an exception, recorded as such)
            for X in ('HoRT_SE', 'SoR_SE', 'CpoR_SE'):
                try:
                    out['%s/abs/%s' % (X, T)] = float(getattr(est, 'get_' + X)(T))
                except Exception as e:
                    out['%s/abs/%s' % (X, T)] = 'EXC:' + type(e).__name__
    return out


USER_LIB = """units:
    molar enthalpy: kJ/mol
    molar entropy: J/(mol*K)
    molar heat capacity: J/(mol*K)
    temperature: K
groups:
    'C(C)(H)3':
        thermochem:
            T_ref: 298.15
            H_ref: -42.68
            S_ref: 127.3
            Cp_data:
                - [300, 25.9]
                - [500, 39.4]
                - [1000, 61.8]
            range: [298, 1000]
    'C(C)2(H)2':
        thermochem:
            T_ref: 298.15
            H_ref: -20.63
            S_ref: 39.4
            Cp_data:
                - [300, 23.0]
                - [1000, 51.9]
            range: [298, 1000]
"""


def load_user_library():
    """a user's own small library: bare numbers under a units block that differs from the shipped files' (kJ, J)"""
    from vlib import libgen as LG
    from pgradd.GroupAdd.Library import GroupLibrary
    import pgradd.ThermoChem  # noqa
    with LG.TempLib() as tl:
        tl.write('library.yaml', USER_LIB)
        with warnings.catch_warnings():
            warnings.simplefilter('ignore')
            return GroupLibrary.Load(tl.path())


def single_operation(L, mols):
    """what a fresh process answers: one load, then for each molecule ONE decomposition + estimate on a fresh object"""
    from pgradd.GroupAdd.Library import GroupLibrary
    import pgradd.ThermoChem  # noqa
    if L == '__user__':
        return dict(fingerprint=shipped.fingerprint(load_user_library())['groups'], mols={})
    res = dict(fingerprint=shipped.fingerprint(GroupLibrary.Load(L)), mols={})
    for smi in mols:
        lib = GroupLibrary.Load(L)          # fresh object per molecule: nothing has happened on it before
        try:
            d = lib.GetDescriptors(smi)
            desc = {str(k): v for k, v in d.items()}
        except Exception as e:
            res['mols'][smi] = dict(desc='EXC:' + type(e).__name__)
            continue
        try:
            est = lib.Estimate(d, 'thermochem')
        except Exception as e:
            res['mols'][smi] = dict(desc=desc, est='EXC:' + type(e).__name__)
            continue
        r = est.get_range()
        res['mols'][smi] = dict(desc=desc, est='ok', range=None if r is None else [float(r[0]), float(r[1])], values=evaluate_all(est))
    return res


def baseline(L, mols):
    env = dict(os.environ, PYTHONHASHSEED='0')
    code = WORKER % dict(verif=HERE, repo=REPO)
    r = subprocess.run([sys.executable, '-c', code, json.dumps([L, mols])], capture_output=True, text=True, env=env, cwd=HERE, timeout=900)
    for line in r.stdout.splitlines():
        if line.startswith('BASEJSON'):
            return json.loads(line[8:])
    raise RuntimeError('baseline worker failed: %s' % r.stderr[-1500:])


def same_fp(a, b):
    """fingerprints equal up to 1e-12 relative on numbers (a merge of identical data re-derives H through (H*T)/T)"""
    if isinstance(a, dict) and isinstance(b, dict):
        return a.keys() == b.keys() and all(same_fp(a[k], b[k]) for k in a)
    if isinstance(a, list) and isinstance(b, list):
        return len(a) == len(b) and all(same_fp(x, y) for x, y in zip(a, b))
    if isinstance(a, float) and isinstance(b, float):
        return abs(a - b) <= 1e-12 * max(abs(a), abs(b), 1e-300)
    return a == b


def near(a, b):
    if isinstance(a, str) or isinstance(b, str):
        return a == b
    return abs(a - b) <= 1e-12 * max(abs(a), abs(b), 1e-300)


class Sim(object):
    """the history interpreter: real objects + comparison with the fresh-process table"""

    def __init__(self, ctx, base, libs, pools):
        self.ctx, self.base, self.libs, self.pools = ctx, base, libs, pools
        self.objs = []          # (library name, object, [molecules decomposed so far], merged?)
        self.decs = []          # (obj index, smiles, descriptors)
        self.ests = []          # (obj index, smiles, estimate, decomposed-other-molecule-in-between?)
        self.trace = []
        self.nontrivial = False
        self.rev = {}           # obj index -> {group name: (dH, dS, T_ref)}: reference values revised by an overwriting merge

    def fail(self, bucket, msg):
        self.ctx.fail(bucket, '%s\nhistory: %s' % (msg, self.trace[-25:]), case=dict(kind='history', libs=self.libs, pools=self.pools, trace=self.trace))

    def load(self, li, assembled=False):
        from pgradd.GroupAdd.Library import GroupLibrary
        import pgradd.ThermoChem  # noqa: registers the thermochem property set
        if len(self.objs) >= 8:
            return
        L = self.libs[li % len(self.libs)]
        self.trace.append(['assemble' if assembled else 'load', li % len(self.libs)])
        try:
            obj = GroupLibrary.Load(L)
            if assembled:
                # the same library put together through the constructor and Update(): an empty library object for the
                # scheme, filled from a freshly loaded one.  The source stays in the history as an object of its own: whatever is
                # done to the assembled library later (revisions, overwriting merges) is none of its business
                src, obj = obj, GroupLibrary(obj.scheme)
                obj.Update(src)
                self.ctx.event('op:assemble')
                if len(self.objs) <= 6:
                    self.objs.append([L, src, [], False])
            self.objs.append([L, obj, [], False])
        except Exception as e:
            self.fail('load-raises:%s' % type(e).__name__, '%s(%s) raised %s: %s' % ('constructor + Update' if assembled else 'Load', L, type(e).__name__, e))

    def decompose(self, oi, mi, alt=False):
        if not self.objs:
            return
        oi %= len(self.objs)
        L, obj, hist, flag = self.objs[oi]
        if flag == 'mixed':
            return
        smi = self.pools[L][mi % len(self.pools[L])]
        given = smi
        if alt == 'mol':
            # the species as an RDKit Mol object that carries its hydrogens as atoms - ONE object per species for the whole
            # history, handed to whichever library object comes next
            from rdkit import Chem
            if not hasattr(self, 'mols'):
                self.mols = {}
            if smi not in self.mols:
                self.mols[smi] = Chem.AddHs(Chem.MolFromSmiles(smi))
            given = self.mols[smi]
            self.trace.append(['decompose_mol', oi, mi % len(self.pools[L])])
            self.ctx.event('op:decompose-mol-object')
        elif alt:
            # the same species written in another atom order (C03: same descriptors) - a later request for a species the
            # object has seen before, but numbered differently
            from vlib import molgen
            if molgen.has_fused_aromatic(smi):
                return
            sp = [s2 for k, s2 in molgen.spellings(smi, 2, 11 + mi) if k == 'renumbered' and s2 != smi]
            if not sp:
                return
            given = sp[-1]
            self.trace.append(['decompose_alt', oi, mi % len(self.pools[L])])
            self.ctx.event('op:decompose-other-spelling')
        else:
            self.trace.append(['decompose', oi, mi % len(self.pools[L])])
        want = self.base[L]['mols'][smi]['desc']
        other_before = any(s != smi for s in hist) or any(o[0] != L and o[2] for o in self.objs)
        try:
            d = obj.GetDescriptors(given)
            got = {str(k): v for k, v in d.items()}
        except Exception as e:
            got, d = 'EXC:' + type(e).__name__, None
        self.ctx.count()
        if other_before:
            self.nontrivial = True
        if got != want:
            self.fail('descriptors-depend-on-history', '%s descriptors of %r%s: fresh process %s, after this history %s'
                      % (L, smi, ' (written %r)' % (given if isinstance(given, str) else 'as an explicit-hydrogen Mol object used before') if given is not smi else '', want, got))
        hist.append(smi)
        if d is not None:
            self.decs.append((oi, smi, d))
            self.ctx.event('op:decompose')
        # an estimate that exists already keeps meaning ITS molecule: look at the newest estimate of this object right away
        mine = [k for k, e in enumerate(self.ests) if e[0] == oi and e[1] != smi]
        if mine:
            self.evaluate(mine[-1], 0, 3, True, record=False)

    def estimate(self, di):
        if not self.decs:
            return
        di %= len(self.decs)
        oi, smi, d = self.decs[di]
        L, obj, hist, flag = self.objs[oi]
        if flag == 'mixed':
            return
        self.trace.append(['estimate', di])
        want = self.base[L]['mols'][smi].get('est')
        later_other = bool(hist) and hist[-1] != smi
        try:
            e = obj.Estimate(d, 'thermochem')
            got = 'ok'
        except Exception as ex:
            e, got = None, 'EXC:' + type(ex).__name__
        if got != want:
            self.fail('estimate-outcome-depends-on-history', '%s Estimate for %r: fresh process %s, here %s' % (L, smi, want, got))
        if e is not None:
            # the standard error of the new estimate (uncertainty libraries): independent of the estimates made before it
            w_se = self.base[L]['mols'][smi]['values'].get('HoRT_SE/abs/%s' % TS[0])
            if isinstance(w_se, float):
                try:
                    g_se = float(e.get_HoRT_SE(TS[0]))
                except Exception as ex:
                    g_se = 'EXC:' + type(ex).__name__
                self.ctx.count()
                self.ctx.event('op:estimate:standard-error-checked')
                if isinstance(g_se, str) or abs(g_se - w_se) > 1e-9 * max(abs(g_se), abs(w_se), 1e-300):
                    self.fail('standard-error-depends-on-history', '%s HoRT_SE(%r) for %r right after Estimate: fresh process %r, after this history %r'
                              % (L, TS[0], smi, w_se, g_se))
            self.ests.append((oi, smi, e, later_other))
            self.ctx.event('op:estimate-after-other-decomposition' if later_other else 'op:estimate-right-after-decomposition')
            if later_other:
                self.nontrivial = True

    def shifted(self, oi, smi, X, T, want):
        """the fresh-process value moved by the revisions this object has received (analytically: a change d of H_ref/RT_ref of a
        group adds count*d*T_ref/T to H/RT; a change of S_ref/R adds count*d to S/R; Cp/R stays)"""
        rv = self.rev.get(oi)
        if not rv or isinstance(want, str):
            return want
        L = self.objs[oi][0]
        desc = self.base[L]['mols'][smi]['desc']
        if not isinstance(desc, dict):
            return want
        dH = sum(desc.get(g, 0) * d[0] * d[2] / T for g, d in rv.items())
        dS = sum(desc.get(g, 0) * d[1] for g, d in rv.items())
        return want + {'HoRT': dH, 'SoR': dS, 'GoRT': dH - dS}.get(X, 0.0)

    def revise(self, oi, gi, hi, si):
        """an overwriting merge that revises only the reference enthalpy / entropy of one group the pool molecules use"""
        from pgradd.GroupAdd.Library import GroupLibrary
        from pgradd.ThermoChem import ThermochemGroup
        if not self.objs:
            return
        oi %= len(self.objs)
        L, obj, hist, flag = self.objs[oi]
        if flag:
            return
        used = sorted({g for smi in self.pools[L] for g in (self.base[L]['mols'][smi]['desc'] if isinstance(self.base[L]['mols'][smi]['desc'], dict) else {})})
        keys = {str(k): k for k in obj}
        used = [g for g in used if g in keys and 'thermochem' in obj[keys[g]] and obj[keys[g]]['thermochem'].ND_H_ref is not None
                and obj[keys[g]]['thermochem'].ND_S_ref is not None]
        if not used:
            return
        g = used[gi % len(used)]
        tc = obj[keys[g]]['thermochem']
        dH, dS = [1.5, -4.0, 0.0, 12.25][hi % 4], [0.0, 0.75, -2.0, 0.0][si % 4]
        if dH == 0 and dS == 0:
            dH = 3.0
        self.trace.append(['revise', oi, gi % len(used), hi % 4, si % 4])
        donor = GroupLibrary(obj.scheme, {keys[g]: {'thermochem': ThermochemGroup(float(tc.ND_H_ref) + dH, float(tc.ND_S_ref) + dS, {}, float(tc.T_ref), None)}})
        try:
            obj.Update(donor, overwrite=True)
        except ValueError:
            self.ctx.event('op:revise-refused(uncertainty-block)')
            return
        except Exception as e:
            self.fail('revision-raises:%s' % type(e).__name__, 'Update(overwrite=True) with new reference values for %s raised %s: %s' % (g, type(e).__name__, e))
            return
        old = self.rev.setdefault(oi, {}).get(g, (0.0, 0.0, float(tc.T_ref)))
        self.rev[oi][g] = (old[0] + dH, old[1] + dS, float(tc.T_ref))
        self.ctx.event('op:revise')
        self.nontrivial = True
        # every estimate of this object follows the revised data at once (they hold the library's correlation objects)
        mine = [k for k, e in enumerate(self.ests) if e[0] == oi]
        for k in mine[-2:]:
            self.evaluate(k, 0, 0, False, record=False)
            self.evaluate(k, 1, 2, False, record=False)

    def load_user(self):
        """the user's own library file loaded in this process, after whatever was loaded before: what a fresh process reads"""
        self.trace.append(['load_user'])
        try:
            fp = shipped.fingerprint(load_user_library())['groups']
        except Exception as e:
            self.fail('user-library-load-raises:%s' % type(e).__name__, 'loading the user library raised %s: %s' % (type(e).__name__, str(e)[:200]))
            return
        self.ctx.count()
        self.ctx.event('op:load-user-library')
        self.nontrivial = True
        want = self.base['__user__']['fingerprint']
        if not same_fp(fp, want):
            k = next((g for g in want if not same_fp(fp.get(g), want[g])), None)
            self.fail('user-library-depends-on-history', 'the user library (kJ/mol, J/(mol K) defaults) read here: %s = %s; in a fresh process %s' % (k, fp.get(k), want.get(k)))

    def refused_merge(self, oi, gi):
        """a merge that must be refused (conflicting reference enthalpy, overwrite not allowed; the donor also brings a new Cp
        point and a wider range): afterwards the library is exactly what it was"""
        from pgradd.GroupAdd.Library import GroupLibrary
        from pgradd.ThermoChem import ThermochemGroup
        if not self.objs:
            return
        oi %= len(self.objs)
        L, obj, hist, flag = self.objs[oi]
        if flag or oi in self.rev:
            return
        keys = {str(k): k for k in obj}
        used = sorted({g for smi in self.pools[L] for g in (self.base[L]['mols'][smi]['desc'] if isinstance(self.base[L]['mols'][smi]['desc'], dict) else {})})
        used = [g for g in used if g in keys and 'thermochem' in obj[keys[g]] and obj[keys[g]]['thermochem'].ND_H_ref is not None
                and obj[keys[g]]['thermochem'].ND_Cp_data]
        if not used:
            return
        g = used[gi % len(used)]
        tc = obj[keys[g]]['thermochem']
        ts = sorted(float(t) for t in tc.ND_Cp_data)
        newT = 0.5 * (ts[0] + ts[1]) + 0.123 if len(ts) > 1 else ts[0] + 11.0
        r = tc.get_range()
        rng = (min(float(r[0]), ts[0]) - 5.0, max(float(r[1]), ts[-1]) + 50.0) if r is not None else None
        self.trace.append(['refused_merge', oi, gi % len(used)])
        donor = GroupLibrary(obj.scheme, {keys[g]: {'thermochem': ThermochemGroup(float(tc.ND_H_ref) + 2.0, None, {newT: 1.0}, float(tc.T_ref), rng)}})
        try:
            obj.Update(donor)
        except Exception as e:
            self.ctx.event('op:refused-merge:%s' % type(e).__name__)
        else:
            self.fail('conflicting-merge-accepted', 'Update() with a different H_ref for %s (no overwrite) was accepted' % g)
            self.objs[oi][3] = True
            return
        self.nontrivial = True
        self.check_objects()

    def evaluate(self, ei, ti, xi, elemental, record=True):
        if not self.ests:
            return
        ei %= len(self.ests)
        oi, smi, e, later_other = self.ests[ei]
        L = self.objs[oi][0]
        if self.objs[oi][3] == 'mixed':
            return          # the target of an overwriting merge legitimately holds other data now
        T = TS[ti % len(TS)]
        X = ['HoRT', 'CpoR', 'SoR', 'GoRT'][xi % 4]
        el = bool(elemental) and X in ('SoR', 'GoRT')
        key = '%s/%s/%s' % (X, 'el' if el else 'abs', T)
        if record:
            self.trace.append(['evaluate', ei, ti % len(TS), xi % 4, el])
        want = self.shifted(oi, smi, X, T, self.base[L]['mols'][smi]['values'][key])
        with warnings.catch_warnings():
            warnings.simplefilter('ignore')
            try:
                got = float(getattr(e, 'get_' + X)(T, **({'S_elements': True} if el else {})))
            except Exception as ex:
                got = 'EXC:' + type(ex).__name__
        self.ctx.count()
        self.ctx.event('op:evaluate%s' % (':elemental' if el else ''))
        if not (near(got, want) if not self.rev.get(oi) or isinstance(got, str) or isinstance(want, str)
                else abs(got - want) <= 1e-9 * max(abs(got), abs(want), 1.0)):
            tag = 'elemental-reference' if el else ('value' if not self.rev.get(oi) else 'value-after-revision')
            hist = self.objs[oi][2]
            moved = later_other or (hist and hist[-1] != smi)
            self.fail('%s-depends-on-history:%s' % (tag, 'estimate-made-after-a-later-decomposition' if (el and later_other) else
                                                    'later-decomposition-changed-an-existing-estimate' if (el and moved) else 'other'),
                      '%s %s(%r%s) for %r: fresh process %r, after this history %r' % (L, X, T, ', S_elements=True' if el else '', smi, want, got))

    def evaluate_se(self, ei, ti, xi):
        """the standard error of an estimate does not depend on which estimates the library object made before"""
        if not self.ests:
            return
        ei %= len(self.ests)
        oi, smi, e, later_other = self.ests[ei]
        L = self.objs[oi][0]
        if self.objs[oi][3] == 'mixed':
            return
        T = TS[ti % len(TS)]
        X = ['HoRT_SE', 'SoR_SE', 'CpoR_SE'][xi % 3]
        self.trace.append(['evaluate_se', ei, ti % len(TS), xi % 3])
        want = self.base[L]['mols'][smi]['values']['%s/abs/%s' % (X, T)]
        with warnings.catch_warnings():
            warnings.simplefilter('ignore')
            try:
                got = float(getattr(e, 'get_' + X)(T))
            except Exception as ex:
                got = 'EXC:' + type(ex).__name__
        self.ctx.count()
        self.ctx.event('op:evaluate-standard-error%s' % ('' if not isinstance(want, str) else ':no-uncertainty-data'))
        if not (near(got, want) if isinstance(got, str) or isinstance(want, str) else abs(got - want) <= 1e-9 * max(abs(got), abs(want), 1e-300)):
            self.fail('standard-error-depends-on-history', '%s %s(%r) for %r: fresh process %r, after this history %r' % (L, X, T, smi, want, got))

    def evaluate_dim(self, ei, ti, ui, which):
        """a dimensional value in one of several unit strings from the SAME estimate object: H = (H/RT) T R(u), S = (S/R) R(u)
        with the fresh-process non-dimensional value (C07's identity, here across a history of requests)"""
        if not self.ests:
            return
        ei %= len(self.ests)
        oi, smi, e, later_other = self.ests[ei]
        L = self.objs[oi][0]
        if self.objs[oi][3] == 'mixed':
            return
        from pmutt import constants as c
        T = TS[ti % len(TS)]
        u = ['J/mol', 'kJ/mol', 'kcal/mol', 'eV', 'cal/mol', 'Eh'][ui % 6]
        X = ['H', 'S', 'Cp', 'G'][which % 4]
        self.trace.append(['evaluate_dim', ei, ti % len(TS), ui % 6, which % 4])
        vals = self.base[L]['mols'][smi]['values']
        R = c.R(u + '/K')
        nd = {k: self.shifted(oi, smi, k, T, vals['%s/abs/%s' % (k, T)]) for k in ('HoRT', 'SoR', 'CpoR', 'GoRT')}
        need = {'H': ['HoRT'], 'S': ['SoR'], 'Cp': ['CpoR'], 'G': ['GoRT']}[X]
        with warnings.catch_warnings():
            warnings.simplefilter('ignore')
            try:
                got = float(getattr(e, 'get_' + X)(T, u if X in ('H', 'G') else u + '/K'))
            except Exception as ex:
                got = 'EXC:' + type(ex).__name__
        self.ctx.count()
        self.ctx.event('op:evaluate-dimensional')
        if any(isinstance(nd[k], str) for k in need):
            want = nd[need[0]]
            ok = got == want
        else:
            want = nd[need[0]] * R * (T if X in ('H', 'G') else 1.0)
            slack = 0.0
            if X == 'G' and not isinstance(nd['HoRT'], str) and not isinstance(nd['SoR'], str):
                slack = 1e-12 * (abs(nd['HoRT']) + abs(nd['SoR'])) * T * abs(R)
            ok = not isinstance(got, str) and abs(got - want) <= 1e-10 * max(abs(got), abs(want), 1e-300) + slack
        if not ok:
            self.fail('dimensional-value-depends-on-history', '%s get_%s(%r, %r) for %r: from the fresh-process non-dimensional value %r, after this history %r'
                      % (L, X, T, u, smi, want, got))

    def merge(self, ai, bi):
        if len(self.objs) < 2:
            return
        ai %= len(self.objs)
        bi %= len(self.objs)
        if ai == bi or self.objs[ai][0] != self.objs[bi][0] or 'mixed' in (self.objs[ai][3], self.objs[bi][3]) or ai in self.rev or bi in self.rev:
            return
        self.trace.append(['merge', ai, bi])
        try:
            self.objs[ai][1].Update(self.objs[bi][1])
            self.ctx.event('op:merge')
        except ValueError:
            self.ctx.event('op:merge-refused(uncertainty-block)')
        except Exception as e:
            self.fail('merge-of-identical-library-raises:%s' % type(e).__name__, 'Update of %s with an identical library raised %s: %s' % (self.objs[ai][0], type(e).__name__, e))
        self.nontrivial = True

    def cross_merge(self, ai, bi):
        """merge an object of ANOTHER library into a target (overwrite allowed).  The target becomes a mixed library and is
        no longer compared with the table; the donor must stay exactly what it was."""
        if len(self.objs) < 2:
            return
        ai %= len(self.objs)
        bi %= len(self.objs)
        if ai == bi or self.objs[ai][0] == self.objs[bi][0] or self.objs[bi][3] == 'mixed' or bi in self.rev:
            return
        if self.objs[ai][3] != 'mixed' and sum(1 for o in self.objs if o[3] == 'mixed') >= 2:
            return                      # keep most objects comparable with the fresh-process table
        self.trace.append(['cross_merge', ai, bi])
        try:
            self.objs[ai][1].Update(self.objs[bi][1], overwrite=True)
            self.ctx.event('op:cross-merge')
        except ValueError:
            self.ctx.event('op:cross-merge-refused(uncertainty-block)')
        except Exception as e:
            self.ctx.event('op:cross-merge-raised:%s' % type(e).__name__)
        self.objs[ai][3] = 'mixed'
        self.nontrivial = True

    def check_objects(self):
        for k, (L, obj, hist, altered) in enumerate(self.objs):
            if altered or k in self.rev:
                continue                      # reported once / deliberately revised; the history goes on with the object as it is
            fp = shipped.fingerprint(obj)
            if not same_fp(fp, self.base[L]['fingerprint']):
                from props.C14 import diff_fp
                self.fail('library-data-altered', 'object %d (%s) no longer equals a freshly loaded library: %s' % (k, L, diff_fp(self.base[L]['fingerprint'], fp)))
                self.objs[k][3] = True

    def finish(self):
        self.ctx.begin('histories', dict(kind='history', libs=self.libs, pools=self.pools, trace=self.trace))
        self.ctx.case(nontrivial=self.nontrivial, key=self.trace, sample=dict(libraries=self.libs, history=self.trace[:14]), evals=0)
        self.ctx.event('history-length:%s' % ('<10' if len(self.trace) < 10 else '10-19' if len(self.trace) < 20 else '20+'))


_state = {}


def shard_setup(ctx):
    """choose this shard's pool and compute the fresh-process table for it"""
    if 'base' in _state:
        return
    # three libraries per shard: two that define many of the same groups with different data (so that one can overwrite what
    # the other gave to a third), and one from the other family
    triples = [('GRWSurface2018', 'GRWAqueous2018', 'BensonGA'), ('BensonGA', 'PPY', 'SalciccioliGA2012'), ('SalciccioliGA2012', 'GuSolventGA2017Vac', 'PPY'),
               ('GuSolventGA2017Aq', 'GuSolventGA2017Vac', 'XieGA2022'), ('PtSurface2023', 'GRWSurface2018', 'BensonGA'), ('XieGA2022', 'SalciccioliGA2012', 'PPY'),
               ('GRWAqueous2018', 'PtSurface2023', 'GuSolventGA2017Aq'), ('PPY', 'BensonGA', 'GRWSurface2018')]
    libs = list(triples[(ctx.shard + ctx.seed) % len(triples)])
    pools = {L: [POOLS[L][(ctx.seed + ctx.shard + 3 * j) % len(POOLS[L])] for j in range(6)] for L in libs}
    pools = {L: list(dict.fromkeys(v)) for L, v in pools.items()}
    with ThreadPoolExecutor(max_workers=3) as ex:
        futs = {L: ex.submit(baseline, L, pools[L]) for L in libs}
        base = {L: f.result() for L, f in futs.items()}
    base['__user__'] = baseline('__user__', [])
    _state.update(base=base, libs=libs, pools=pools)
    ctx.event('fresh-process-baselines', sum(len(v) for v in pools.values()))


def run_histories(ctx, fam, n):
    shard_setup(ctx)
    base, libs, pools = _state['base'], _state['libs'], _state['pools']

    class M(RuleBasedStateMachine):
        def __init__(self):
            super().__init__()
            self.sim = Sim(ctx, base, libs, pools)

        @initialize(a=st.integers(0, 8), b=st.integers(0, 8))
        def start(self, a, b):
            self.sim.load(a)
            self.sim.load(b)

        # ONE rule with a weighted choice of operation: Hypothesis draws rules uniformly, so separate rules would make the mix of
        # operations depend on how many kinds there are (merges would crowd out decompositions and evaluations)
        @rule(op=st.sampled_from(['decompose'] * 6 + ['estimate'] * 5 + ['evaluate'] * 6 + ['load'] * 2 + ['merge', 'cross_merge', 'cross_merge_twice', 'revise', 'revise', 'refused_merge', 'load_user']),
              a=st.integers(0, 30), b=st.integers(0, 8), c=st.integers(0, 8), ti=st.integers(0, 4), xi=st.integers(0, 3), flag=st.booleans(),
              mode=st.sampled_from([0, 0, 1, 2]), ui=st.integers(0, 5))
        def step(self, op, a, b, c, ti, xi, flag, mode, ui):
            sim = self.sim
            if op == 'load':
                sim.load(a, flag)
            elif op == 'decompose':
                sim.decompose(a, b, alt=('spelling' if xi == 0 else 'mol' if xi == 1 else False) if flag else False)
            elif op == 'estimate':
                sim.estimate(a)
            elif op == 'evaluate':
                if mode == 0:
                    sim.evaluate(a, ti, xi, flag)
                elif mode == 1:
                    sim.evaluate_dim(a, ti, ui, xi)
                else:
                    sim.evaluate_se(a, ti, xi)
            elif op == 'revise':
                sim.revise(b, a, xi, ui)
            elif op == 'refused_merge':
                sim.refused_merge(b, a)
            elif op == 'load_user':
                sim.load_user()
            elif op == 'merge':
                sim.merge(b, c)
            elif op == 'cross_merge':
                sim.cross_merge(b, c)
            else:
                # target <- donor 1, then target <- donor 2 (overwriting): what donor 1 gave must not be written through to donor 1
                sim.cross_merge(a % 9, b)
                sim.cross_merge(a % 9, c)

        @invariant()
        def libraries_unaltered(self):
            if len(self.sim.trace) % 6 == 0:
                self.sim.check_objects()

        def teardown(self):
            self.sim.check_objects()
            self.sim.finish()

    from hypothesis import settings, HealthCheck, Phase
    s = settings(max_examples=n, stateful_step_count=30 if ctx.tier == 'quick' else 40, database=None, deadline=None,
                 derandomize=False, report_multiple_bugs=False, phases=[Phase.generate],
                 suppress_health_check=[HealthCheck.too_slow, HealthCheck.data_too_large, HealthCheck.large_base_example],
                 print_blob=False)
    ctx.begin('histories', None)
    run_state_machine_as_test(hypothesis.seed(ctx.hseed('histories'))(M), settings=s)


def replay(ctx, case):
    libs, pools = case['libs'], case['pools']
    base = {L: baseline(L, pools[L]) for L in libs}
    if any(step[0] == 'load_user' for step in case['trace']):
        base['__user__'] = baseline('__user__', [])
    sim = Sim(ctx, base, libs, pools)
    for step in case['trace']:
        op = step[0]
        if op == 'load':
            sim.load(step[1])
        elif op == 'assemble':
            sim.load(step[1], assembled=True)
        elif op == 'decompose':
            sim.decompose(step[1], step[2])
        elif op == 'decompose_alt':
            sim.decompose(step[1], step[2], alt=True)
        elif op == 'decompose_mol':
            sim.decompose(step[1], step[2], alt='mol')
        elif op == 'evaluate_se':
            sim.evaluate_se(step[1], step[2], step[3])
        elif op == 'evaluate_dim':
            sim.evaluate_dim(step[1], step[2], step[3], step[4])
        elif op == 'estimate':
            sim.estimate(step[1])
        elif op == 'evaluate':
            sim.evaluate(step[1], step[2], step[3], step[4])
        elif op == 'revise':
            sim.revise(step[1], step[2], step[3], step[4])
        elif op == 'refused_merge':
            sim.refused_merge(step[1], step[2])
        elif op == 'load_user':
            sim.load_user()
        elif op == 'merge':
            sim.merge(step[1], step[2])
        elif op == 'cross_merge':
            sim.cross_merge(step[1], step[2])
    sim.check_objects()
    sim.finish()


FAMILIES = [
    Family('histories', lambda ctx, case: replay(ctx, case), stateful=run_histories, n=(200, 4800)),
]
