"""C19 - Group identity is the centre plus the multiset of peripherals.

Oracle: algebraic laws.  A case gives a centre, a multiset of peripherals in a
particular ordering and run-length spelling, and a 'partner' that is either
another presentation of the same (centre, multiset) or a near miss.  The model
is the pair (centre, Counter(peripherals)).
"""
import collections
import itertools
import warnings

from hypothesis import strategies as st

from vlib.core import Family

PROPERTY = 'C19'
RULE = ('exhaustive: every centre x multiset of <=K peripherals over an alphabet incl. bracketed/multi-letter '
        'names x every distinct ordering x every run-length spelling (K=4 over 6 names quick, K=6 over 10 names '
        'thorough), each compared with the sorted construction and with 5 near-miss partners; random: larger '
        'multisets with two-digit counts and shipped-style names; malformed: a repeat count where a peripheral '
        'name is expected.  Non-trivial = the two constructions differ textually (different order, spelling or a '
        'near-miss partner). Distinct = distinct (centre, spelled runs, partner) tuples.')
ASSUMPTIONS = ['names are drawn from the shapes the shipped libraries use (letters, digits, [] . = space); '
               'peripheral names never contain parentheses and are never all digits',
               'repeat counts are >= 1 (a zero repeat count is not documented and not generated)']

ALPHA_Q = ['H', 'C', 'C[d]', 'CO', 'Pt', 'O']
ALPHA_T = ['H', 'C', 'C[d]', 'CO', 'Pt', 'O', 'C[.]', 'N[A]', 'CO2g', 'C[B]']
CENTRES_Q = ['C', 'C[d]', 'CO']
CENTRES_T = ['C', 'C[d]', 'CO', 'N[A]', 'Double Cis']

_mods = {}


def _pg():
    if not _mods:
        from pgradd.GroupAdd.Group import Group, Descriptor
        from pgradd.GroupAdd.Library import GroupLibrary
        from pgradd.Error import GroupSyntaxError
        _mods.update(Group=Group, Descriptor=Descriptor, GroupLibrary=GroupLibrary,
                     GroupSyntaxError=GroupSyntaxError)
    return _mods


def render(centre, runs):
    """runs: list of [name, count, explicit_one]"""
    s = centre
    for r in runs:
        name, cnt = r[0], r[1]
        s += '(' + name + ')'
        if cnt != 1 or (len(r) > 2 and r[2]):
            s += '%d' % cnt
    return s


def expand(runs):
    out = []
    for r in runs:
        out.extend([r[0]] * r[1])
    return out


def compositions(n):
    if n == 0:
        yield []
        return
    for first in range(1, n + 1):
        for rest in compositions(n - first):
            yield [first] + rest


def spellings(order):
    """all run-length spellings of an ordered list"""
    groups = [(k, len(list(g))) for k, g in itertools.groupby(order)]
    per = []
    for name, L in groups:
        per.append([[[name, c] for c in comp] for comp in compositions(L)])
    for combo in itertools.product(*per):
        yield [r for part in combo for r in part]


def distinct_perms(ms):
    return sorted(set(itertools.permutations(ms)))


def partners(centre, ms, alpha, centres):
    """near misses and one equal partner; returns list of (kind, centre, list)"""
    out = [('same-sorted', centre, sorted(ms)), ('same-reversed', centre, sorted(ms, reverse=True))]
    if ms:
        out.append(('drop-one', centre, list(ms[1:])))
        rep = alpha[(alpha.index(ms[0]) + 1) % len(alpha)]
        out.append(('replace-one', centre, [rep] + list(ms[1:])))
        # same set, different multiset
        names = sorted(set(ms))
        if len(names) >= 2 and len(ms) >= 3:
            c = collections.Counter(ms)
            hi = max(names, key=lambda n: c[n])
            lo = min(names, key=lambda n: c[n])
            if c[hi] >= 2 and hi != lo:
                m2 = list(ms)
                m2.remove(hi)
                m2.append(lo)
                out.append(('same-set-other-multiset', centre, m2))
        out.append(('add-one', centre, list(ms) + [ms[-1]]))
    other = centres[(centres.index(centre) + 1) % len(centres)] if centre in centres else centre + 'x'
    out.append(('other-centre', other, list(ms)))
    return out


def enum_cases(tier):
    alpha, centres, K = (ALPHA_Q, CENTRES_Q, 4) if tier == 'quick' else (ALPHA_T, CENTRES_T, 6)
    for k in range(0, K + 1):
        for ms in itertools.combinations_with_replacement(alpha, k):
            perms = distinct_perms(ms)
            for ci, centre in enumerate(centres):
                if tier == 'thorough' and k >= 5 and ci > 0:
                    continue        # the centre plays no role in ordering; keep the big sizes for one centre
                for perm in perms:
                    for sp in spellings(perm):
                        yield dict(centre=centre, runs=sp, alpha=alpha, centres=centres)


def check_enum(ctx, case):
    centre, runs = case['centre'], case['runs']
    ms = expand(runs)
    for kind, c2, m2 in partners(centre, ms, case['alpha'], case['centres']):
        runs2 = [[n, 1] for n in m2]
        _pair(ctx, centre, runs, c2, runs2, kind)


class _Scheme(object):
    """stands for a scheme object (groups only keep a reference to it)"""


_SCHEMES = (_Scheme(), _Scheme())


def _pair(ctx, c1, runs1, c2, runs2, kind):
    m = _pg()
    Group, GroupLibrary = m['Group'], m['GroupLibrary']
    t1, t2 = render(c1, runs1), render(c2, runs2)
    p1, p2 = expand(runs1), expand(runs2)
    model_eq = (c1 == c2 and collections.Counter(p1) == collections.Counter(p2))
    A = Group(None, c1, list(p1))
    B = Group.parse(None, t2)
    A2 = Group.parse(None, t1)
    B2 = Group(None, c2, list(p2))
    ctx.case(nontrivial=(t1 != t2), key=[t1, t2, kind], sample=dict(a=t1, b=t2, partner=kind, model_equal=model_eq),
             evals=1)
    ctx.event('partner:' + kind)
    ctx.event('model_equal' if model_eq else 'model_unequal')

    def bad(tag, msg):
        ctx.fail(tag, '%s: a=%r b=%r (%s) %s' % (tag, t1, t2, kind, msg),
                 case=dict(kind='pair', c1=c1, runs1=runs1, c2=c2, runs2=runs2, partner=kind))

    # parse agrees with the direct constructor
    if not (A2 == A and A == A2 and hash(A2) == hash(A)):
        bad('parse-vs-constructor', 'parse(%r)=%r vs %r' % (t1, A2, A))
    if not (B2 == B and hash(B2) == hash(B)):
        bad('parse-vs-constructor', 'parse(%r)=%r vs %r' % (t2, B, B2))
    # the peripherals may be given as any iterable of names (tuple, generator, iterator, map), and the caller's list is left alone
    src = list(p1)
    for form, mk in (('tuple', tuple), ('generator', lambda p: (x for x in p)), ('iterator', iter), ('map', lambda p: map(str, p)), ('same-list', lambda p: p)):
        try:
            G = Group(None, c1, mk(src))
        except Exception as e:
            bad('constructor-iterable:%s:raises-%s' % (form, type(e).__name__), 'Group(%r, <%s of %r>) raised %s' % (c1, form, p1, e))
            continue
        try:
            same = (G == A and A == G and hash(G) == hash(A) and G.name == A.name)
        except Exception as e:
            bad('constructor-iterable:%s:unusable-%s' % (form, type(e).__name__), 'Group(%r, <%s of %r>) cannot be compared: %s' % (c1, form, p1, e))
            continue
        if not same:
            bad('constructor-iterable:%s' % form, 'Group(%r, <%s of %r>) = %r, from the list %r' % (c1, form, p1, G, A))
    if src != list(p1):
        bad('constructor-changes-callers-list', 'the list %r given to Group() is now %r' % (p1, src))
    # ... and the group does not follow the caller's list afterwards: a scratch list re-used for the next group
    scratch = list(p1)
    G = Group(None, c1, scratch)
    scratch[:] = list(p2) + ['Zz']
    if not (G == A and hash(G) == hash(A) and G.name == A.name and str(G) == A.name):
        bad('group-follows-the-callers-list', 'Group(%r, L) with L = %r, then L refilled with %r: the group is now %r' % (c1, p1, scratch, G))
    # which scheme object a group was built for plays no part: two groups made for two different scheme objects are the same
    # group exactly when centre and peripherals say so
    S1, S2 = _SCHEMES
    As, Bs = Group(S1, c1, list(p1)), Group.parse(S2, t2)
    if (As == Bs) != model_eq or (Bs == As) != model_eq or (As != Bs) == model_eq or (model_eq and hash(As) != hash(Bs)) \
            or ({As: 1}.get(Bs) == 1) != model_eq or not (As == A and A == As):
        bad('groups-of-different-scheme-objects', 'Group(scheme1, ...) == Group(scheme2, ...) is %r, model says %r' % (As == Bs, model_eq))
    for X, Y in ((A, B), (B, A), (A2, B2)):
        if (X == Y) != model_eq:
            bad('eq', '(a==b) is %r, model says %r; names %r %r' % (X == Y, model_eq, X.name, Y.name))
        if (X != Y) != (not model_eq):
            bad('ne', '(a!=b) is %r, model says %r' % (X != Y, not model_eq))
    if model_eq and hash(A) != hash(B):
        bad('hash', 'equal groups hash differently')
    d = {A: 'hit'}
    if (d.get(B) == 'hit') != model_eq:
        bad('dict-lookup', '{a:..}.get(b) -> %r, model_equal=%r' % (d.get(B), model_eq))
    # canonical name round trip and string interchangeability
    for X in (A, B):
        R = Group.parse(None, X.name)
        if not (R == X and X == R and hash(R) == hash(X)
                and collections.Counter(R.psgs) == collections.Counter(X.psgs) and R.csg == X.csg):
            bad('name-roundtrip', 'parse(name=%r) -> %r' % (X.name, R))
        if not (X == X.name and X.name == X and not (X != X.name) and not (X.name != X)):
            bad('string-interchange-eq', 'group vs its canonical name %r' % X.name)
        if {X.name: 1}.get(X) != 1 or {X: 1}.get(X.name) != 1:
            bad('string-interchange-lookup', 'dict lookup group<->name %r' % X.name)
    if ((A == B.name) != model_eq) or ((B.name == A) != model_eq):
        bad('string-interchange-eq', 'a == b.name is %r, model %r' % (A == B.name, model_eq))
    # library lookups
    lib = GroupLibrary(None, {A2: {'payload': t1}})
    for key in (B, B.name, B2):
        got = lib[key]
        hit = (got == {'payload': t1})
        if hit != model_eq or ((key in lib) != model_eq):
            bad('library-lookup', 'lib[%r] -> %r, in=%r, model_equal=%r' % (key, got, key in lib, model_eq))
    if lib[A] != {'payload': t1} or lib[A.name] != {'payload': t1} or len(lib) != 1 or list(lib) != [A]:
        bad('library-lookup', 'library does not find its own key %r' % A.name)
    # what a lookup of an ABSENT group returns belongs to the caller: writing into it does not create an entry for any other group
    ab1, ab2 = Group(None, c1 + 'zz', list(p1)), Group(None, c2 + 'yy', list(p2))
    e1 = lib[ab1]
    try:
        e1['written-by-caller'] = 1
    except TypeError:
        pass
    if lib[ab2] != {} or lib[ab2.name] != {} or (ab2 in lib) or (ab1 in lib) or len(lib) != 1:
        bad('absent-groups-share-one-entry', 'after writing into the mapping returned for the absent %r: lib[%r] -> %r, %d entries' % (ab1.name, ab2.name, lib[ab2], len(lib)))
    # the library grows (Update from another library) AFTER it has been asked by string: the new entry is found by its group, by
    # its canonical name and by any other spelling's group alike
    newc = c2 + 'q'
    N = Group(None, newc, list(p2))
    try:
        lib.Update(GroupLibrary(None, {N: {'payload': {'v': 1}}}))
    except Exception as e:
        bad('library-update-raises:%s' % type(e).__name__, 'Update with one new group raised %s' % e)
    else:
        N2 = Group.parse(None, render(newc, runs2))
        for key in (N, N.name, N2):
            if lib[key] != {'payload': {'v': 1}} or key not in lib:
                bad('library-lookup-after-update', 'after Update() brought %r: lib[%r] -> %r, in=%r' % (N.name, key, lib[key], key in lib))
                break
        if len(lib) != 2:
            bad('library-lookup-after-update', 'after Update() with one new group the library has %d entries' % len(lib))
    # a library FILE that lists both names: one entry twice (refused) exactly when the two are the same group, two entries
    # otherwise (sampled: every 40th pair, files are slow)
    if t1 != t2 and sum(map(ord, t1 + '|' + t2)) % 40 == 0 and "'" not in t1 + t2 and max(len(t1), len(t2)) <= 200:   # (YAML keys end at 1024 characters)
        from vlib import libgen as LG
        text = ("groups:\n    '%s':\n        'thermochem':\n            T_ref: 298.15 K\n            ND_H_ref: 1.5\n"
                "    '%s':\n        'thermochem':\n            T_ref: 298.15 K\n            ND_S_ref: 2.5\n" % (t1, t2))
        with LG.TempLib() as tl:
            tl.write('library.yaml', text)
            try:
                import pgradd.ThermoChem  # noqa
                with warnings.catch_warnings():
                    warnings.simplefilter('ignore')
                    L2 = GroupLibrary.Load(tl.path())
                n = len(L2)
            except Exception as e:
                n = 'refused:%s' % type(e).__name__
        ctx.count()
        ctx.event('library-file:%s' % ('same-group-twice' if model_eq else 'two-groups'))
        if model_eq and not isinstance(n, str):
            bad('library-file-defines-one-group-twice', 'a file listing %r and %r (the same group) loaded with %d entries' % (t1, t2, n))
        if not model_eq and n != 2:
            bad('library-file-two-groups', 'a file listing %r and %r (different groups) gave %r' % (t1, t2, n))


# -- random larger cases ----------------------------------------------------
NAME_POOL = ['H', 'C', 'O', 'N', 'CO', 'CN', 'NO2', 'NCO', 'Pt', 'Ru', 'C[d]', 'C[t]', 'C[.]', 'C[B]', 'C[BF]',
             'C[a]', 'N[A]', 'N[I]', 'Cd', 'Owk', 'COwk', 'CO2g', '[C.]', 'Ether oxygen gauche', 'C=O', 'c', 'H2']
CENTRE_POOL = NAME_POOL + ['CRu2CRu1', 'Double Cis', 'AlkaneGauche']


@st.composite
def random_pair(draw):
    names = draw(st.lists(st.sampled_from(NAME_POOL), min_size=1, max_size=6, unique=True))
    runs1 = draw(st.lists(st.tuples(st.sampled_from(names),
                                    st.one_of(st.integers(1, 4), st.integers(1, 25)),
                                    st.booleans()), min_size=0, max_size=12))
    runs1 = [list(r) for r in runs1]
    c1 = draw(st.sampled_from(CENTRE_POOL))
    mode = draw(st.sampled_from(['respell', 'respell', 'perturb', 'centre']))
    flat = expand(runs1)
    if mode == 'respell' or not flat:
        flat2 = draw(st.permutations(flat))
        kind = 'same-respelled'
    elif mode == 'perturb':
        i = draw(st.integers(0, len(flat) - 1))
        what = draw(st.sampled_from(['drop', 'dup', 'swap']))
        flat2 = list(flat)
        if what == 'drop':
            del flat2[i]
        elif what == 'dup':
            flat2.append(flat2[i])
        else:
            flat2[i] = draw(st.sampled_from(NAME_POOL))
        flat2 = draw(st.permutations(flat2))
        kind = 'perturbed-' + what
    else:
        flat2 = list(flat)
        kind = 'other-centre'
    c2 = c1 if mode != 'centre' else draw(st.sampled_from(CENTRE_POOL))
    # re-run-length-encode flat2 with random cut points
    runs2 = []
    for k, g in itertools.groupby(flat2):
        L = len(list(g))
        while L > 0:
            c = draw(st.integers(1, L))
            runs2.append([k, c, draw(st.booleans())])
            L -= c
    return dict(kind='pair', c1=c1, runs1=runs1, c2=c2, runs2=runs2, partner=kind)


def check_pair(ctx, case):
    _pair(ctx, case['c1'], case['runs1'], case['c2'], case['runs2'], case.get('partner', 'replay'))
    n = len(expand(case['runs1']))
    ctx.event('random:size>=10' if n >= 10 else 'random:size<10')
    if any(r[1] >= 10 for r in case['runs1'] + case['runs2']):
        ctx.event('random:two-digit-count')


# -- malformed names ---------------------------------------------------------
@st.composite
def malformed(draw):
    c = draw(st.sampled_from(CENTRE_POOL))
    runs = draw(st.lists(st.tuples(st.sampled_from(NAME_POOL), st.integers(1, 12)), min_size=0, max_size=4))
    good = render(c, [list(r) for r in runs])
    form = draw(st.sampled_from(['count-after-centre-paren', 'empty-paren-count', 'count-after-count',
                                 'paren-count-after-count']))
    d = draw(st.integers(0, 30))
    if form == 'count-after-centre-paren':
        text = c + '(%d)' % d + good[len(c):]
    elif form == 'empty-paren-count':
        text = c + '()%d' % d + good[len(c):]
    elif form == 'count-after-count':
        runs = runs or [('H', 2)]
        text = render(c, [[n, k + 1] for n, k in runs]) + '(%d)' % d
    else:
        runs = runs or [('H', 2)]
        text = render(c, [[n, k + 1] for n, k in runs]) + '()%d' % d
    return dict(kind='malformed', text=text, form=form)


def check_malformed(ctx, case):
    m = _pg()
    ctx.case(nontrivial=True, key=case['text'], sample=case)
    ctx.event('malformed:' + case['form'])
    try:
        g = m['Group'].parse(None, case['text'])
    except m['GroupSyntaxError']:
        return
    except Exception as e:
        ctx.fail('malformed-wrong-exception', '%r -> %s: %s' % (case['text'], type(e).__name__, e))
        return
    ctx.fail('malformed-accepted', '%r accepted as %r' % (case['text'], g))


def check_any(ctx, case):
    k = case.get('kind')
    if k == 'malformed':
        return check_malformed(ctx, case)
    if k == 'pair':
        return check_pair(ctx, case)
    return check_enum(ctx, case)


FAMILIES = [
    Family('exhaustive', check_any, enumerate=enum_cases),
    Family('random', check_any, strategy=lambda tier: random_pair(), n=(15000, 200000)),
    Family('malformed', check_any, strategy=lambda tier: malformed(), n=(1500, 30000)),
]
