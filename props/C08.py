"""C08 - RING fragment matching returns exactly the embeddings it denotes.

Oracle: differential against a brute-force reference matcher (vlib/ringref.py) over an own molecule model; plus the
metamorphic relation that layout, whitespace and label names do not matter.
"""
import itertools

from hypothesis import strategies as st
from rdkit import Chem

from vlib.core import Family
from vlib import molgen, ringast, ringref, schemeref

PROPERTY = 'C08'
RULE = ('fragments of 1-5 atoms from the RING grammar (every symbol class incl. lower-case aromatic symbols, prefix but allylic, suffix but *, '
        'bond kind, constraint form, comparison operator, negation, molecule prefix, the stereo double bond clause on alkenes with and without '
        'cis/trans marks; random layout and label names incl. '
        'keyword-like labels), half of them abstracted from a connected sub-graph of the molecule and then perturbed in '
        'one feature, x molecules (gas, aromatic, radical, charged, Pt/Ru adsorbate families) in two states: as RDKit '
        'reads them and in the scheme-normalised state (explicit H, Kekule, Benson aromatic rings, weak bonds); bounded '
        'exhaustive: all 1-atom fragments with 0-1 constraint and 2-atom fragments over a reduced alphabet x all molecules '
        'of a fixed small pool. Non-trivial = the reference set is non-empty, or the fragment minus one constraint / with '
        'one bond relaxed matches. Distinct = distinct (fragment text, molecule, state).')
ASSUMPTIONS = ['RDKit SMILES reading, ring perception (RingInfo), aromaticity flags and stereo perception are trusted',
               "'*' suffix and 'allylic' prefix are unspecified and not generated",
               'molecules only contain Pt/Ru as metals and no non-metal with Z > 19, so "M" is unambiguous',
               'total embeddings < 10000 (the code caps RDKit matches there)']

WEIGHTS = dict(gas=5, alkene=1, aromatic=2, radical=2, adsorbate=3, special=1, oov=1, ions=3, polycyclic=3)
_m = {}


def _pg():
    if not _m:
        from pgradd.RINGParser import Read
        _m['Read'] = Read
    return _m


def make_mol(smiles, state):
    """-> (mol given to the code, MolModel of the same atoms in the same order) or None"""
    mol = Chem.MolFromSmiles(smiles)
    if mol is None:
        return None
    if state == 'normalised':
        m = Chem.AddHs(mol)
        try:
            Chem.Kekulize(m)
        except Exception:
            return None
        for b in m.GetBonds():
            if b.GetBondType().name == 'UNSPECIFIED':
                b.SetBondType(Chem.BondType.ZERO)
        todo = []
        for r in m.GetRingInfo().AtomRings():
            if len(r) != 6 or any(m.GetAtomWithIdx(i).GetSymbol() != 'C' for i in r):
                continue
            ts = [m.GetBondBetweenAtoms(r[k], r[(k + 1) % 6]).GetBondType().name for k in range(6)]
            if ts in (['SINGLE', 'DOUBLE'] * 3, ['DOUBLE', 'SINGLE'] * 3):
                todo.append(r)
        for r in todo:
            for k in range(6):
                m.GetAtomWithIdx(r[k]).SetIsAromatic(True)
                b = m.GetBondBetweenAtoms(r[k], r[(k + 1) % 6])
                b.SetIsAromatic(True)
                b.SetBondType(Chem.BondType.AROMATIC)
        return m, ringref.MolModel(m)
    mh = Chem.AddHs(mol)
    return mol, ringref.MolModel(mh)


@st.composite
def pair_case(draw):
    smi = draw(molgen.mixed(WEIGHTS, metal=draw(st.sampled_from(['Pt', 'Pt', 'Ru'])), max_heavy=draw(st.sampled_from([4, 6, 8]))))
    state = draw(st.sampled_from(['as-read', 'normalised']))
    made = make_mol(smi, state)
    directed = draw(st.booleans()) and made is not None
    if directed:
        ast = draw(ringast.directed_fragment(made[1], max_atoms=draw(st.sampled_from([1, 2, 3, 4, 5]))))
    else:
        ast = draw(ringast.fragment(max_atoms=4))
    return dict(kind='pair', ast=ast, layout=draw(ringast.layout()), layout2=draw(ringast.layout()),
                relabel=draw(ringast.labels(len(ast['atoms']))), smiles=smi, state=state, directed=directed)


@st.composite
def stereo_case(draw):
    """a four-atom pattern a-c=d-b with a stereo clause, on alkenes with and without cis/trans marks"""
    smi = draw(st.one_of(molgen.alkene(), st.sampled_from(['C/C=C\\C', 'C/C=C/C', 'CC=CC', 'C/C=C\\CO', 'F/C=C/F', 'C/C=C(/C)CC', 'CC=C(C)C', 'C/C=C\\C=C',
                                                           'C1CCC=CC1', 'C/C=C/C=C/C', 'OC/C=C\\CO'])))
    labs = draw(ringast.labels(4))
    sub = lambda: draw(st.sampled_from(['C', 'C', '$', 'H', 'X', 'O']))
    atoms = [dict(prefix=None, symbol='C', suffix='?', label=labs[0], constraints=[]),
             dict(prefix=None, symbol='C', suffix='?', label=labs[1], constraints=[]),
             dict(prefix=None, symbol=sub(), suffix='?', label=labs[2], constraints=[]),
             dict(prefix=None, symbol=sub(), suffix='?', label=labs[3], constraints=[])]
    tree = [[1, 0, 'double'], [2, 0, draw(st.sampled_from(['single', 'any', 'nonring']))], [3, 1, draw(st.sampled_from(['single', 'any']))]]
    a, b = (2, 3) if draw(st.booleans()) else (3, 2)
    c, d = (0, 1) if draw(st.booleans()) else (1, 0)
    stereo = [[a, b, c, d, draw(st.booleans()), draw(st.sampled_from(['cis', 'trans', 'notspecified']))]]
    if draw(st.integers(0, 4)) == 0:
        stereo.append([a, b, c, d, draw(st.booleans()), draw(st.sampled_from(['cis', 'trans', 'notspecified']))])
    ast = dict(molprefix=[], name='st', atoms=atoms, tree=tree, ringbonds=[], stereo=stereo)
    return dict(kind='pair', ast=ast, layout=draw(ringast.layout()), layout2=draw(ringast.layout()), relabel=draw(ringast.labels(4)),
                smiles=smi, state=draw(st.sampled_from(['as-read', 'normalised'])), directed=True)


def feature_events(ctx, ast):
    for sc in ast.get('stereo') or []:
        ctx.event('stereo:%s%s' % ('!' if sc[4] else '', sc[5]))
    for a in ast['atoms']:
        ctx.event('symbol:%s' % a['symbol'])
        if a.get('prefix'):
            ctx.event('prefix:%s' % a['prefix'])
        ctx.event('suffix:%s' % (a.get('suffix') or 'none'))
        for c in a.get('constraints') or []:
            ctx.event('constraint:%s%s' % ('!' if c['neg'] else '', c['kind']))
            if c.get('cn'):
                ctx.event('cmp:%s' % (c['cn'][0] or 'bare'))
            elif c['kind'] == 'conn':
                ctx.event('cmp:default')
    for b in ringast.all_bonds(ast):
        ctx.event('bond:%s' % b[2])
    for p in ast.get('molprefix') or []:
        ctx.event('molprefix:%s' % p)


def near_match(mm, ref_ast):
    """does the fragment minus its constraints, with all bonds relaxed to 'any', match?"""
    relaxed = dict(ref_ast, molprefix=[], stereo=[],
                   atoms=[dict(a, constraints=[], suffix='?', prefix=None) for a in ref_ast['atoms']],
                   bonds=[(b[0], b[1], 'any') for b in ref_ast['bonds']])
    return bool(ringref.matches(mm, relaxed))


def run_pair(ctx, ast, layout, layout2, relabel, smiles, state, label=''):
    m = _pg()
    made = make_mol(smiles, state)
    if made is None:
        ctx.event('skip:molecule-not-readable')
        return
    mol, mm = made
    text = ringast.render(ast, layout)
    ref_ast = ringast.to_ref(ast)
    want = ringref.matches(mm, ref_ast)
    try:
        q = m['Read'](text)
        got = q.GetQueryMatches(mol)
    except Exception as e:
        import traceback
        inner = [fr for fr in traceback.extract_tb(e.__traceback__) if '/pgradd/' in fr.filename]
        ctx.case(nontrivial=True, key=[text, smiles, state])
        ctx.fail('read-or-match-raises:%s:%s' % (type(e).__name__, inner[-1].name if inner else '?'),
                 '%s raised %s: %s\nfragment: %s\nmolecule: %s (%s)' % ('Read/GetQueryMatches', type(e).__name__, str(e)[:200], text, smiles, state))
        return
    gs = set(tuple(t) for t in got)
    nontriv = bool(want) or near_match(mm, ref_ast)
    ctx.case(nontrivial=nontriv, key=[text, smiles, state],
             sample=dict(fragment=text, molecule=smiles, state=state, embeddings=len(want)))
    ctx.event('matches:%s' % ('0' if not want else '1' if len(want) == 1 else '2-10' if len(want) <= 10 else '>10'))
    ctx.event('state:%s' % state)
    feature_events(ctx, ast)
    if len(gs) != len(got):
        ctx.fail('duplicate-embeddings', 'returned %d tuples, %d distinct\nfragment: %s\nmolecule: %s (%s)' % (len(got), len(gs), text, smiles, state))
    if gs != want:
        extra, missing = sorted(gs - want)[:3], sorted(want - gs)[:3]
        # root-cause oriented key: which feature kinds the fragment uses
        feats = sorted(set(['%s%s' % ('!' if c['neg'] else '', c['kind']) for a in ast['atoms'] for c in a.get('constraints') or []]))
        kind = 'returns-non-embedding' if extra else 'omits-embedding'
        ctx.fail('%s:%s' % (kind, '+'.join(feats) if feats else 'no-constraints'),
                 'fragment: %s\nmolecule: %s (%s)\nreturned but not denoted: %s\ndenoted but not returned: %s\n(atoms %s)'
                 % (text, smiles, state, extra, missing, [(i, mm.sym[i], mm.chg[i], mm.rad[i]) for i in range(min(mm.n, 12))]))
        return
    # the same query object on the same molecule with its atoms renumbered: the answer must follow the new numbering
    if mm.n <= 40:
        import random
        rnd = random.Random(sum(map(ord, text + smiles)))
        base_mol = Chem.AddHs(mol) if state == 'as-read' else mol
        perm = list(range(base_mol.GetNumAtoms()))
        rnd.shuffle(perm)
        m2 = Chem.RenumberAtoms(base_mol, perm)
        Chem.GetSymmSSSR(m2)        # RenumberAtoms drops the ring information; perceive it the way sanitisation does (symmetrised)
        try:
            want2 = ringref.matches(ringref.MolModel(m2), ref_ast)
            got2r = set(tuple(t) for t in q.GetQueryMatches(m2))
            ctx.count()
            if got2r != want2:
                ctx.fail('same-query-object-on-renumbered-molecule', 'after matching %s, the same query object on the renumbered molecule returns %s, denoted %s\nfragment: %s'
                         % (smiles, sorted(got2r)[:4], sorted(want2)[:4], text))
        except Exception as e:
            ctx.fail('renumbered-molecule-raises:%s' % type(e).__name__, '%s: %s\nfragment: %s molecule %s' % (type(e).__name__, str(e)[:200], text, smiles))
    # the molecule given with only SOME of its hydrogens as atoms (the hydrogens of one atom explicit, the rest implicit): the
    # pattern is matched against the molecule with all its hydrogens, whatever form it came in
    if state == 'as-read' and mm.n <= 40:
        base = Chem.MolFromSmiles(smiles)
        withH = [a.GetIdx() for a in base.GetAtoms() if a.GetTotalNumHs() > 0]
        if withH and base.GetNumAtoms() >= 2:
            mp = Chem.AddHs(base, onlyOnAtoms=[withH[sum(map(ord, text)) % len(withH)]])
            if mp.GetNumAtoms() < Chem.AddHs(base).GetNumAtoms():
                try:
                    want3 = ringref.matches(ringref.MolModel(Chem.AddHs(mp)), ref_ast)
                    got3 = set(tuple(t) for t in q.GetQueryMatches(mp))
                    ctx.count()
                    ctx.event('molecule-with-some-hydrogens-explicit')
                    if got3 != want3:
                        ctx.fail('partly-explicit-hydrogens', 'molecule %s given with the hydrogens of one atom explicit (%s): returned %s, denoted %s\nfragment: %s'
                                 % (smiles, Chem.MolToSmiles(mp), sorted(got3)[:4], sorted(want3)[:4], text))
                except Exception as e:
                    ctx.fail('partly-explicit-hydrogens-raises:%s' % type(e).__name__, '%s: %s\nfragment: %s molecule %s' % (type(e).__name__, str(e)[:200], text, smiles))
    # layout / label names do not matter
    ast2 = dict(ast, atoms=[dict(a, label=l) for a, l in zip(ast['atoms'], relabel)], name='other_name')
    text2 = ringast.render(ast2, layout2)
    try:
        got2 = set(tuple(t) for t in m['Read'](text2).GetQueryMatches(mol))
    except Exception as e:
        ctx.fail('relabelled-fragment-raises:%s' % type(e).__name__, 'same fragment, other layout/labels raised %s: %s\n%s\nvs\n%s'
                 % (type(e).__name__, str(e)[:200], text2, text))
        return
    ctx.count()
    if got2 != gs:
        ctx.fail('layout-or-labels-matter', 'two spellings of one fragment give different matches:\n%s\n-> %s\n%s\n-> %s\nmolecule %s (%s)'
                 % (text, sorted(gs)[:4], text2, sorted(got2)[:4], smiles, state))


def check_pair(ctx, case):
    run_pair(ctx, case['ast'], case.get('layout'), case.get('layout2'), case['relabel'], case['smiles'], case['state'])
    ctx.event('generator:%s' % ('molecule-directed' if case.get('directed') else 'grammar'))


# -- bounded exhaustive ---------------------------------------------------------------------------------
SMALL_MOLS = ['C', 'CC', 'C=C', 'C#C', 'CO', 'C=O', 'O', 'OO', '[CH3]', '[CH2]', 'C[CH2]', 'C[O]', 'CC(=O)[O-]', '[NH4+]',
              'C1CC1', 'C1CO1', 'C1=CC1', 'c1ccccc1', 'C[Pt]', '[Pt]C[Pt]', 'C=C[Pt]', 'O=C=O', 'CC=O', 'C[NH3+]', 'N', 'CN',
              '[H][H]', 'OC[Pt]', 'C1CC2CC12', '[CH]=C', 'C1CC2CCC12', 'C[CH2+]', '[CH2-]C', 'C1CC2CCCC12', 'C[O-]', 'C12CC(C1)C2', 'C1CC2CCC1CC2']
EX_SYMS = ['C', 'O', 'H', '$', '&', 'X', 'Pt', 'M', 'N']
EX_SUF = [None, '+', '-', '.', ':', '+.', '-.', '?']
EX_PRE = [None, 'aromatic', 'nonaromatic', 'ringatom', 'nonringatom']
EX_BONDS = ['single', 'double', 'triple', 'aromatic', 'ring', 'nonring', 'any', 'strong', 'partial']


def ex_constraints():
    out = [None]
    for neg in (False, True):
        for n in (0, 1, 2, 3):
            for op in (None, '>', '<', '>=', '<=', '='):
                out.append(dict(kind='conn', neg=neg, cn=[op, n], atom=dict(prefix=None, symbol='H', suffix=None), bond=None))
                out.append(dict(kind='nring', neg=neg, cn=[op, n]))
                out.append(dict(kind='radical', neg=neg, cn=[op, n]))
        for n in (3, 6):
            for op in (None, '>', '<='):
                out.append(dict(kind='ringsize', neg=neg, cn=[op, n]))
        for sym in ('C', 'O', '$', 'Pt'):
            for bk in (None, 'any', 'double'):
                out.append(dict(kind='conn', neg=neg, cn=None, atom=dict(prefix=None, symbol=sym, suffix='?'), bond=bk))
    return out


def enum_small(tier):
    cons = ex_constraints()
    # one-atom fragments
    for sym, suf, pre in itertools.product(EX_SYMS, EX_SUF, EX_PRE):
        for c in cons:
            ast = dict(molprefix=[], name='a', atoms=[dict(prefix=pre, symbol=sym, suffix=suf, label='c1', constraints=[c] if c else [])],
                       tree=[], ringbonds=[], stereo=[])
            yield dict(kind='small', ast=ast)
    # two-atom fragments over a reduced alphabet
    for s1, s2 in itertools.product(['C', 'O', 'H', '$', 'X', 'Pt'], repeat=2):
        for f1, f2 in itertools.product([None, '?', '.'], repeat=2):
            for bk in EX_BONDS:
                ast = dict(molprefix=[], name='a', atoms=[dict(prefix=None, symbol=s1, suffix=f1, label='c1', constraints=[]),
                                                          dict(prefix=None, symbol=s2, suffix=f2, label='c2', constraints=[])],
                           tree=[[1, 0, bk]], ringbonds=[], stereo=[])
                yield dict(kind='small', ast=ast)


def check_small(ctx, case):
    k = abs(hash(str(case['ast']))) if False else sum(map(ord, str(case['ast'])))
    mols = SMALL_MOLS if ctx.tier == 'thorough' else [SMALL_MOLS[(k + 7 * j) % len(SMALL_MOLS)] for j in range(3)]
    for smi in mols:
        for state in ('as-read', 'normalised'):
            run_pair(ctx, case['ast'], None, [3, 1, 4], ['x9', 'labeled'][:len(case['ast']['atoms'])], smi, state)


# -- ring closures: the bond kind carried by a 'ringbond' statement --------------------------------------------
RING_MOLS = ['C1CC1', 'C1=CC1', 'C1CO1', 'C1CCC1', 'C1=CCC1', 'C1CC2CC12', 'C1CCCC1', 'C1=CCCC1', 'C1=CC=CC1', 'c1ccccc1', 'C1CCCCC1',
             'C1=CCCCC1', 'c1ccoc1', 'C1CC1C', 'C1CC1C=C', 'C1=CC1C', 'O=C1CC1', 'C1COC1', 'C1=COC=C1', 'C1CC1[Pt]']


def enum_rings(tier):
    for size in (3, 4, 5, 6):
        for sym in ('C', 'X', '$'):
            for inner in ('any', 'single'):
                for bk in EX_BONDS + ['quadruple']:
                    for first in (True, False):
                        atoms = [dict(prefix=None, symbol=sym, suffix='?', label='r%d' % k, constraints=[]) for k in range(size)]
                        tree = [[k, k - 1, inner] for k in range(1, size)]
                        # the closing statement names the two ends in either order
                        rb = [size - 1, 0, bk] if first else [0, size - 1, bk]
                        yield dict(kind='ring', ast=dict(molprefix=[], name='rc', atoms=atoms, tree=tree, ringbonds=[rb], stereo=[]))


def check_ring(ctx, case):
    size = len(case['ast']['atoms'])
    k = sum(map(ord, str(case['ast'])))
    mols = RING_MOLS if ctx.tier == 'thorough' else [m for j, m in enumerate(RING_MOLS) if (j + k) % 3 == 0 or m.count('C') + m.count('c') + 1 == size]
    for smi in mols:
        run_pair(ctx, case['ast'], None, [2, 0, 1], ['7', 'ring', 'c1', 'bond', 'x', 'to'][:size], smi, 'as-read' if k % 2 else 'normalised')
    ctx.event('ring-closure:%s' % case['ast']['ringbonds'][0][2])


def check_any(ctx, case):
    return {'pair': check_pair, 'small': check_small, 'ring': check_ring}[case['kind']](ctx, case)


FAMILIES = [
    Family('pairs', check_any, strategy=lambda tier: pair_case(), n=(20000, 300000)),
    Family('stereo', check_any, strategy=lambda tier: stereo_case(), n=(4000, 60000)),
    Family('bounded-exhaustive', check_any, enumerate=enum_small, stride=(25, 1)),
    Family('ring-closures', check_any, enumerate=enum_rings, stride=(1, 1)),
]
