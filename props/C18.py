"""C18 - A correlation written to YAML reads back as the same correlation.

Oracle: round trip  obj -> yaml_format(units) -> yaml_io.load(parse('!ThermochemGroup\\n' + text)).
"""
import math

import numpy as np
from hypothesis import strategies as st

from vlib.core import Family
from vlib import shipped

PROPERTY = 'C18'
RULE = ('ThermochemGroup objects with tables of 0-15 points, H/S present / absent / zero / negative, range present or '
        'absent, values as Python floats and as numpy.float64, magnitudes spanning 1e-6..1e7 in the output unit, x output '
        'unit choices {none; kcal|kJ|J|cal per mol with matching entropy/heat-capacity units; temperature K, mK, kK}; plus '
        'every group of every shipped library x 3 unit choices. Non-trivial = the correlation has >= 1 Cp point or a '
        'zero-valued datum, or a non-default unit choice. Distinct = distinct (correlation, unit choice).')
ASSUMPTIONS = ['six significant digits = relative 5e-6 (plus 1e-300); non-dimensional values must come back exactly',
               'the loader is yaml_io.load on the formatted text prefixed with the !ThermochemGroup tag, which is how library '
               'files present it']

UNIT_CHOICES = [
    {},
    {'temperature': 'K'},
    {'molar enthalpy': 'kcal/mol', 'molar entropy': 'cal/(mol K)', 'molar heat capacity': 'cal/(mol K)'},
    {'molar enthalpy': 'kJ/mol', 'molar entropy': 'J/(mol K)', 'molar heat capacity': 'J/(mol K)', 'temperature': 'K'},
    {'molar enthalpy': 'J/mol', 'molar entropy': 'J/(mol K)', 'molar heat capacity': 'kJ/(mol K)', 'temperature': 'mK'},
    {'molar enthalpy': 'kcal/mol', 'molar entropy': 'kcal/(mol K)', 'molar heat capacity': 'cal/(mol K)', 'temperature': 'kK'},
    {'molar enthalpy': 'cal/mol', 'temperature': 'mK'},
    {'molar entropy': 'J/(mol K)', 'temperature': 'kK'},
    {'molar heat capacity': 'J/(mol K)'},
    # the same units in their other spellings: chained division, '*', products with negative powers
    {'molar enthalpy': 'kcal/mol', 'molar entropy': 'cal/mol/K', 'molar heat capacity': 'cal/mol/K'},
    {'molar enthalpy': 'kJ/mol', 'molar entropy': 'J/mol/K', 'molar heat capacity': 'kJ/mol/K', 'temperature': 'K'},
    {'molar enthalpy': 'J mol^-1', 'molar entropy': 'J/(mol*K)', 'molar heat capacity': 'cal/(mol*K)'},
    {'molar enthalpy': 'kJ mol^-1', 'molar entropy': 'J K^-1 mol^-1', 'molar heat capacity': 'J mol^-1 K^-1'},
]
_m = {}


def _pg():
    if not _m:
        from pgradd.ThermoChem import ThermochemGroup
        from pgradd import yaml_io
        _m.update(Group=ThermochemGroup, yaml_io=yaml_io)
    return _m


def mag():
    """magnitudes over many decades, both signs, and zero"""
    return st.one_of(
        st.just(0.0),
        st.tuples(st.floats(1, 10, allow_nan=False), st.integers(-6, 4), st.sampled_from([1, -1])).map(
            lambda t: t[2] * t[0] * 10.0 ** t[1]),
        st.integers(-300, 300).map(float),
        st.floats(-100, 100, allow_nan=False))


@st.composite
def corr_case(draw):
    n = draw(st.sampled_from([0, 0, 1, 2, 3, 5, 8, 15]))
    t0 = draw(st.sampled_from([100.0, 200.0, 298.15, 300.0, 250.5]))
    step = draw(st.sampled_from([50.0, 100.0, 100.0, 12.5, 333.3]))
    Ts = [t0 + step * i for i in range(n)]
    Cps = [draw(mag()) for _ in range(n)]
    if n and draw(st.integers(0, 3)) == 0:
        Cps[draw(st.integers(0, n - 1))] = 0.0
    T_ref = draw(st.sampled_from([298.15, 298.0, 300.0, 500.0])) if not n else draw(st.sampled_from(Ts + [Ts[0] + 0.37 * (Ts[-1] - Ts[0])]))
    H = draw(st.one_of(st.none(), mag(), st.just(0.0)))
    S = draw(st.one_of(st.none(), mag(), st.just(0.0)))
    rng = None
    if draw(st.booleans()):
        rng = [min(Ts + [T_ref]) - draw(st.sampled_from([0.0, 48.15, 100.0])),
               max(Ts + [T_ref]) + draw(st.sampled_from([0.0, 500.0, 1201.85]))]
    return dict(kind='corr', Ts=Ts, Cps=Cps, T_ref=T_ref, H=H, S=S, range=rng,
                numpy=draw(st.booleans()), units=draw(st.integers(0, len(UNIT_CHOICES) - 1)),
                mutate=draw(st.sampled_from([None, 'del-H', 'del-S', 'set-range', 'del-Cp-point', 'update'])))


def sig6(a, b):
    return abs(a - b) <= 5e-6 * max(abs(a), abs(b)) + 1e-300


def roundtrip(ctx, obj, units, label, nd_exact=True):
    m = _pg()
    try:
        text = obj.yaml_format(units) if units else obj.yaml_format()
    except Exception as e:
        ctx.fail('format-raises:%s' % type(e).__name__, '[%s] yaml_format(%s) raised %s: %s' % (label, units, type(e).__name__, e))
        return
    try:
        back = m['yaml_io'].load(m['yaml_io'].parse('!ThermochemGroup\n' + text))
    except Exception as e:
        why = 'exponent-notation' if ('e+' in text or 'e-' in text) and 'np.float64' not in text else (
            'numpy-repr' if 'np.float64' in text else 'other')
        ctx.fail('load-rejects-formatted-text:%s' % why, '[%s] units=%s: loading\n%s\nraised %s: %s'
                 % (label, units, text, type(e).__name__, str(e)[:300]))
        return

    def cmp(tag, a, b, exact):
        if (a is None) != (b is None):
            ctx.fail('%s-presence%s' % (tag, ':zero-valued' if (a == 0 or b == 0) else ''),
                     '[%s] units=%s: %s was %r, reads back as %r\n%s' % (label, units, tag, a, b, text))
            return
        if a is None:
            return
        if not isinstance(b, (int, float, np.floating)):
            ctx.fail('%s-not-a-number' % tag, '[%s] units=%s: %s reads back as %r' % (label, units, tag, b))
            return
        ok = (a == b) if exact else sig6(a, b)
        if not ok:
            ctx.fail('%s-value:%s' % (tag, 'exact' if exact else '6-digits'), '[%s] units=%s: %s was %r, reads back as %r\n%s'
                     % (label, units, tag, a, b, text))

    cmp('T_ref', obj.T_ref, back.T_ref, False)
    if units.get('molar enthalpy') and obj.ND_H_ref is not None and back.ND_H_ref is not None \
            and isinstance(back.ND_H_ref, (int, float, np.floating)):
        # the dimensional value H = (H/RT_ref) R T_ref is what was written to six digits; the
        # reference temperature it is divided by on reading was itself written to six digits
        cmp('H_ref', obj.ND_H_ref * obj.T_ref, back.ND_H_ref * back.T_ref, False)
    else:
        cmp('H_ref', obj.ND_H_ref, back.ND_H_ref, nd_exact and not units.get('molar enthalpy'))
    cmp('S_ref', obj.ND_S_ref, back.ND_S_ref, nd_exact and not units.get('molar entropy'))
    r0, r1 = obj.get_range(), back.get_range()
    if (r0 is None) != (r1 is None):
        ctx.fail('range-presence', '[%s] units=%s: range %r reads back as %r' % (label, units, r0, r1))
    elif r0 is not None and not (sig6(r0[0], r1[0]) and sig6(r0[1], r1[1])):
        ctx.fail('range-value', '[%s] units=%s: range %r reads back as %r' % (label, units, r0, r1))
    a, b = obj.ND_Cp_data or {}, back.ND_Cp_data or {}
    if len(a) != len(b):
        ctx.fail('Cp-table-length', '[%s] units=%s: %d Cp points read back as %d\n%s' % (label, units, len(a), len(b), text))
        return
    for (Ta, ca), (Tb, cb) in zip(sorted(a.items()), sorted(b.items())):
        if not sig6(Ta, Tb):
            ctx.fail('Cp-table-temperature', '[%s] units=%s: T=%r reads back as %r' % (label, units, Ta, Tb))
            return
        exact = nd_exact and not units.get('molar heat capacity')
        if not ((ca == cb) if exact else sig6(ca, cb)):
            ctx.fail('Cp-value:%s' % ('exact' if exact else '6-digits'), '[%s] units=%s: Cp(%r) was %r, reads back as %r' % (label, units, Ta, ca, cb))
            return


def check_corr(ctx, case):
    m = _pg()
    conv = (lambda v: np.float64(v)) if case['numpy'] else (lambda v: v)
    H = None if case['H'] is None else conv(case['H'])
    S = None if case['S'] is None else conv(case['S'])
    pairs = list(zip(case['Ts'], case['Cps']))
    # the mapping of Cp points is filled in some order (a caller's dict, or points merged in later): descending, rotated, as drawn
    k = (len(pairs) + int(sum(case['Ts']))) % 3 if pairs else 0
    pairs = pairs[::-1] if k == 1 else (pairs[len(pairs) // 2:] + pairs[:len(pairs) // 2] if k == 2 else pairs)
    if k and len(pairs) > 1:
        ctx.event('Cp-mapping-not-in-ascending-order')
    data = {conv(T): conv(c) for T, c in pairs}
    obj = m['Group'](H, S, data, conv(case['T_ref']), tuple(case['range']) if case['range'] else None)
    units = UNIT_CHOICES[case['units']]
    zero = (case['H'] == 0 or case['S'] == 0 or any(c == 0 for c in case['Cps']))
    ctx.case(nontrivial=bool(case['Ts']) or zero or bool(units), key=[case],
             sample=dict(n=len(case['Ts']), H=case['H'], S=case['S'], T_ref=case['T_ref'], range=case['range'],
                         numpy=case['numpy'], units=units))
    ctx.event('presence:H=%s,S=%s,Cp=%s,range=%s' % (case['H'] is not None, case['S'] is not None, bool(case['Ts']), bool(case['range'])))
    ctx.event('units:%d' % case['units'])
    ctx.event('values:%s' % ('numpy.float64' if case['numpy'] else 'float'))
    ctx.event('zero-valued-datum' if zero else 'no-zero-datum')
    roundtrip(ctx, obj, units, 'generated', nd_exact=True)
    # the same object after a change through its public methods is a correlation too: format it again
    mut = case.get('mutate')
    if mut:
        try:
            if mut == 'del-H':
                obj.del_ND_H_ref()
            elif mut == 'del-S':
                obj.del_ND_S_ref()
            elif mut == 'set-range':
                lo = min(case['Ts'] + [case['T_ref']]) - 7.0
                hi = max(case['Ts'] + [case['T_ref']]) + 11.0
                obj.set_range((lo, hi))
            elif mut == 'del-Cp-point':
                if len(case['Ts']) < 2 or not (min(case['Ts'][1:]) <= case['T_ref'] <= max(case['Ts'][1:]) or case['range']):
                    return
                obj.del_ND_Cp(conv(case['Ts'][0]) if case['Ts'][0] in obj.ND_Cp_data else list(obj.ND_Cp_data)[0])
            else:
                other = m['Group'](7.5 if H is None else None, None, {}, conv(case['T_ref']), None)
                obj.update(other)
        except Exception:
            ctx.event('mutation-not-applicable')
            return
        ctx.event('formatted-again-after:%s' % mut)
        ctx.count()
        roundtrip(ctx, obj, units, 'generated, formatted again after %s' % mut, nd_exact=True)


def enum_shipped(tier):
    for L in shipped.LIBS:
        for k in shipped.group_names(L):
            for u in (0, 2, 4):
                yield dict(kind='shipped', lib=L, group=k, units=u)


def check_shipped(ctx, case):
    lib = shipped.lib(case['lib'])
    ps = lib[case['group']]
    if 'thermochem' not in ps:
        return
    g = ps['thermochem']
    vals = [g.ND_H_ref, g.ND_S_ref] + list((g.ND_Cp_data or {}).values())
    if any(v is not None and not isinstance(v, (int, float, np.floating)) for v in vals):
        ctx.event('shipped:non-numeric-data(C14)')
        return
    units = UNIT_CHOICES[case['units']]
    ctx.case(nontrivial=bool(g.ND_Cp_data) or bool(units), key=['shipped', case['lib'], case['group'], case['units']],
             sample=dict(lib=case['lib'], group=case['group'], units=units))
    ctx.event('shipped:%s' % case['lib'])
    roundtrip(ctx, g, units, 'shipped %s/%s' % (case['lib'], case['group']), nd_exact=True)


def check_any(ctx, case):
    return {'corr': check_corr, 'shipped': check_shipped}[case['kind']](ctx, case)


FAMILIES = [
    Family('generated', check_any, strategy=lambda tier: corr_case(), n=(4000, 240000)),
    Family('shipped', check_any, enumerate=enum_shipped),
]
