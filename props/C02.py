"""C02 - Descriptors equal the scheme file's declared decomposition.

Oracle: differential against an independent interpreter of scheme.yaml (vlib/schemeref.py: own RING parser, own
brute-force matcher, own group naming) for the shipped scheme files and for generated synthetic schemes.
"""
import hashlib
import os
import re

from hypothesis import strategies as st

from vlib.core import Family
from vlib import molgen, shipped, schemeref

PROPERTY = 'C02'
RULE = ('molecules generated per scheme vocabulary (gas C/H/O chains, branches, rings, alkenes with/without cis-trans '
        'marks, alkynes, carbonyls, aromatics, radicals; Pt/Ru adsorbates; out-of-vocabulary molecules for the failure '
        'clause) x all 9 shipped scheme files (6 distinct), each scheme read as a program by the independent interpreter; '
        'plus every molecule of a bounded enumerator (<= 3 quick / 4 thorough heavy atoms over C/O(/N), bond orders 1-3, three-rings, one radical '
        'site, 1-3 metal bonds) for each distinct scheme; plus synthetic schemes (2-6 centre patterns, correction descriptors, fractional/one-to-many remaps) written to '
        'disk and loaded. Non-trivial = >= 3 heavy atoms and the expected result has a correction descriptor, a remapped '
        'key, an aromatic/ring/radical/metal-bound centre, or is a failure. Distinct = distinct (scheme, canonical SMILES).')
ASSUMPTIONS = ['RDKit SMILES reading, sanitisation, Kekulisation and ring perception are trusted; RDKit substructure search is not',
               'ortho-fused aromatic six-rings have no call-sequence-independent Benson decomposition (known finding F4): '
               'such molecules are generated and classified separately',
               'values compared at 1e-9 absolute']

WEIGHTS = {
    'BensonGA': dict(gas=6, alkene=3, aromatic=3, radical=3, special=1, oov=1, polycyclic=2), 'PPY': dict(gas=6, alkene=3, aromatic=3, radical=3, special=1, oov=1, polycyclic=2),
    'SalciccioliGA2012': dict(adsorbate=6, gas=2, special=1, oov=1), 'GRWSurface2018': dict(adsorbate=6, gas=2, special=1, oov=1),
    'GRWAqueous2018': dict(adsorbate=6, gas=2, oov=1), 'GuSolventGA2017Aq': dict(adsorbate=6, gas=2, oov=1),
    'GuSolventGA2017Vac': dict(adsorbate=6, gas=2, oov=1), 'PtSurface2023': dict(adsorbate=6, gas=2, oov=1),
    'XieGA2022': dict(adsorbate=6, gas=2, oov=1),
}
_ref = {}
_real = {}


def scheme_path(L):
    return os.path.join(shipped.data_dir(), L, 'scheme.yaml')


def ref_scheme(L):
    """identical files share one reference interpreter (and its pattern-coverage counters)"""
    h = hashlib.sha1(open(scheme_path(L), 'rb').read()).hexdigest()
    if h not in _ref:
        _ref[h] = schemeref.SchemeRef(scheme_path(L))
    return _ref[h], h


def real_scheme(L):
    if L not in _real:
        from pgradd.GroupAdd.Scheme import GroupAdditivityScheme
        _real[L] = GroupAdditivityScheme.Load(scheme_path(L))
    return _real[L]


@st.composite
def shipped_case(draw):
    L = draw(st.sampled_from(shipped.LIBS))
    if draw(st.integers(0, 11)) == 0:
        # 30-75 heavy atoms: thousands of raw embeddings per pattern (the matcher's cap on embeddings is 10000)
        return dict(kind='shipped', lib=L, smiles=draw(molgen.large(None if L in ('BensonGA', 'PPY') else ('Ru' if L == 'XieGA2022' else 'Pt'))))
    if draw(st.integers(0, 7)) == 0:
        return dict(kind='shipped', lib=L, smiles=draw(molgen.remapped(None if L in ('BensonGA', 'PPY') else ('Ru' if L == 'XieGA2022' else 'Pt'))))
    smi = draw(molgen.mixed(WEIGHTS[L], metal='Ru' if L == 'XieGA2022' else 'Pt', max_heavy=draw(st.sampled_from([6, 9, 12, 18]))))
    return dict(kind='shipped', lib=L, smiles=smi)


def features(smi, want):
    from rdkit import Chem
    mol = Chem.MolFromSmiles(smi)
    f = set()
    if mol is None:
        return f, 0
    heavy = mol.GetNumHeavyAtoms()
    if mol.GetRingInfo().NumRings():
        f.add('ring')
    if any(a.GetIsAromatic() for a in mol.GetAtoms()):
        f.add('aromatic')
    if any(a.GetNumRadicalElectrons() for a in mol.GetAtoms()):
        f.add('radical')
    if any(a.GetSymbol() in ('Pt', 'Ru') for a in mol.GetAtoms()):
        f.add('adsorbate')
    if '/' in smi or '\\' in smi:
        f.add('cis-trans-marks')
    return f, heavy


def compare(ctx, real_fn, ref, smi, label, corr_names=(), remap_targets=()):
    """run both sides on one SMILES; returns ('ok'|'fail'|'skip')"""
    from pgradd.Error import PatternMatchError
    want = ref.descriptors(smi)
    fused = molgen.has_fused_aromatic(smi)
    try:
        got = dict(real_fn(smi))
        got_err = None
    except PatternMatchError as e:
        got, got_err = None, e
    except Exception as e:
        import traceback
        inner = [fr for fr in traceback.extract_tb(e.__traceback__) if '/pgradd/' in fr.filename]
        ctx.fail('decomposition-raises:%s:%s' % (type(e).__name__, inner[-1].name if inner else '?'),
                 '[%s] GetDescriptors(%r) raised %s: %s' % (label, smi, type(e).__name__, str(e)[:200]))
        return 'fail', want
    tag = ':fused-aromatic' if fused else ''
    if isinstance(want, tuple):
        if got_err is None:
            ctx.fail('missing-pattern-match-error:%s%s' % (want[1], tag),
                     '[%s] %r: the scheme leaves atom %d %s, but a decomposition %r was returned' % (label, smi, want[2], want[1], got))
            return 'fail', want
        return 'ok', want
    if got_err is not None:
        ctx.fail('spurious-pattern-match-error%s' % tag, '[%s] %r: PatternMatchError(%s) but the scheme decomposes it as %r'
                 % (label, smi, str(got_err)[:120], want))
        return 'fail', want
    got = {str(k): v for k, v in got.items() if v != 0}
    want = {k: v for k, v in want.items() if v != 0}
    if set(got) != set(want) or any(abs(got[k] - want[k]) > 1e-9 for k in want):
        diff = {k: (got.get(k), want.get(k)) for k in sorted(set(got) | set(want)) if abs(got.get(k, 0) - want.get(k, 0)) > 1e-9}
        kinds = sorted(set('correction' if (k in corr_names) else 'group' for k in diff))
        ctx.fail('descriptors-differ:%s%s' % ('+'.join(kinds), tag),
                 '[%s] %r: (code, scheme-as-declared) differ at %s' % (label, smi, diff))
        return 'fail', want
    return 'ok', want


def check_shipped(ctx, case):
    L, smi = case['lib'], case['smiles']
    ref, h = ref_scheme(L)
    real = real_scheme(L)
    corr = set(n for n, _ in ref.desc) | set(t for k, v in ref.remaps.items() for _, t in v if k in set(n for n, _ in ref.desc))
    res, want = compare(ctx, real.GetDescriptors, ref, smi, L, corr_names=corr)
    # the same molecule written in another atom order goes through the same scheme object right afterwards
    if res == 'ok' and not molgen.has_fused_aromatic(smi):
        alt = [s2 for k, s2 in molgen.spellings(smi, 2, sum(map(ord, smi))) if k in ('renumbered', 'rooted') and s2 != smi]
        if alt:
            ctx.count()
            ctx.event('second-spelling-checked')
            compare(ctx, real.GetDescriptors, ref, alt[-1], L + ' (second spelling of %s)' % smi, corr_names=corr)
    # the molecule handed over as an RDKit Mol object that already carries its hydrogens as atoms - twice, the same object
    if res == 'ok' and not isinstance(want, tuple):
        from rdkit import Chem
        holder = {}

        def via_mol(s):
            if s not in holder:
                holder[s] = Chem.AddHs(Chem.MolFromSmiles(s))
            return real.GetDescriptors(holder[s])
        for rep in ('Mol object with explicit hydrogens', 'the same Mol object a second time'):
            ctx.count()
            ctx.event('mol-object-input')
            r2, _ = compare(ctx, via_mol, ref, smi, '%s; %s' % (L, rep), corr_names=corr)
            if r2 != 'ok':
                break
    f, heavy = features(smi, want)
    failure = isinstance(want, tuple)
    has_corr = (not failure) and any(k in corr for k in want)
    nontriv = heavy >= 3 and (failure or has_corr or bool(f & {'ring', 'aromatic', 'radical', 'adsorbate'}))
    ctx.case(nontrivial=nontriv, key=[h, smi], sample=dict(scheme=L, smiles=smi, expected=want if not failure else list(want)))
    ctx.event('scheme:%s' % L)
    ctx.event('expected:%s' % ('failure' if failure else 'decomposition'))
    if has_corr:
        ctx.event('with-correction-descriptor')
    for x in f:
        ctx.event('feature:' + x)
    if molgen.has_fused_aromatic(smi):
        ctx.event('class:fused-aromatic')
    ctx.event('heavy-atoms:%s' % ('<=4' if heavy <= 4 else '5-8' if heavy <= 8 else '9-16' if heavy <= 16 else '17+'))


_reported = set()


def coverage_note(ctx):
    """program coverage of the scheme files: which centre / descriptor patterns matched at least once"""
    for h, ref in _ref.items():
        for kind, i in ref.hits:
            if (h, kind, i) not in _reported:
                _reported.add((h, kind, i))
                ctx.event('pattern-hit:%s:%s:%d' % (h[:8], kind, i))
        ctx.notes.setdefault('patterns-total:%s' % h[:8], str(len(ref.patterns) + len(ref.desc)))


def finalize(ctx):
    hit = {}
    for k in list(ctx.events):
        if k.startswith('pattern-hit:'):
            h = k.split(':')[1]
            hit[h] = hit.get(h, 0) + 1
            del ctx.events[k]
    for h, n in sorted(hit.items()):
        ctx.notes['patterns_hit/%s' % h] = '%d/%s' % (n, ctx.notes.get('patterns-total:%s' % h, '?'))


def check_any(ctx, case):
    if case['kind'] == 'shipped':
        check_shipped(ctx, case)
        coverage_note(ctx)
    else:
        from props.C02_synth import check_synthetic
        check_synthetic(ctx, case)


def enum_small(tier):
    """bounded exhaustive: every small molecule of the enumerator for every shipped scheme"""
    n = 3 if tier == 'quick' else 4
    seen = set()
    for L in shipped.LIBS:
        h = hashlib.sha1(open(scheme_path(L), 'rb').read()).hexdigest()
        if h in seen:
            continue
        seen.add(h)
        gas = L in ('BensonGA', 'PPY')
        els = ('C', 'O', 'N') if gas else ('C', 'O')
        metal = None if gas else ('Ru' if L == 'XieGA2022' else 'Pt')
        for smi in molgen.enumerate_small(n, els, metal):
            yield dict(kind='shipped', lib=L, smiles=smi)
        if not gas:
            for smi in molgen.enumerate_small(min(n, 3), ('C', 'O'), None):
                yield dict(kind='shipped', lib=L, smiles=smi)


def scheme_witnesses(L):
    """directed witnesses: candidate molecules built from every centre / descriptor pattern of the scheme file itself"""
    from vlib import witness
    ref, h = ref_scheme(L)
    gas = L in ('BensonGA', 'PPY')
    metal = None if gas else ('Ru' if L == 'XieGA2022' else 'Pt')
    out = []
    for frag in [f for _, _, f in ref.patterns] + [f for _, f in ref.desc]:
        for smi in witness.witnesses(frag, metal):
            if smi not in out:
                out.append(smi)
    return out


def enum_witnesses(tier):
    import random
    seen = set()
    for L in shipped.LIBS:
        h = hashlib.sha1(open(scheme_path(L), 'rb').read()).hexdigest()
        if h in seen:
            continue
        seen.add(h)
        gas = L in ('BensonGA', 'PPY')
        metal = None if gas else ('Ru' if L == 'XieGA2022' else 'Pt')
        rnd = random.Random(1)          # fixed: the enumeration must be the same in every shard
        for smi in scheme_witnesses(L):
            yield dict(kind='shipped', lib=L, smiles=smi, found_by='pattern witness')
            # neighbours of the witness: the same pattern in a larger / slightly different environment
            for _ in range(2 if tier == 'quick' else 12):
                m2 = mutate(smi, rnd, metal, gas)
                if m2:
                    yield dict(kind='shipped', lib=L, smiles=m2, found_by='mutated pattern witness')


# -- coverage-guided search over molecules: the reference interpreter's pattern hits are the coverage signal -------------
def mutate(smi, rnd, metal, gas):
    """one random structural edit of a molecule (add atom, raise a bond order, close a ring, remove an H, bind a metal,
    delete a terminal atom); returns a new SMILES or None"""
    from rdkit import Chem
    mol = Chem.MolFromSmiles(smi)
    if mol is None:
        return None
    rw = Chem.RWMol(mol)
    withH = [a.GetIdx() for a in rw.GetAtoms() if a.GetTotalNumHs() > 0 and a.GetSymbol() in ('C', 'O', 'N')]
    op = rnd.choice(['add', 'add', 'add', 'bond', 'ring', 'radical', 'metal' if metal else 'add', 'delete', 'metal' if metal else 'bond'])
    try:
        if op == 'add' and withH:
            i = rnd.choice(withH)
            j = rw.AddAtom(Chem.Atom(rnd.choice(['C', 'C', 'C', 'O'] + (['N'] if gas else []))))
            order = rnd.choice([1, 1, 1, 2, 3])
            order = min(order, rw.GetAtomWithIdx(i).GetTotalNumHs(), {6: 4, 8: 2, 7: 3}[rw.GetAtomWithIdx(j).GetAtomicNum()] )
            rw.AddBond(i, j, {1: Chem.BondType.SINGLE, 2: Chem.BondType.DOUBLE, 3: Chem.BondType.TRIPLE}[max(1, order)])
        elif op == 'bond':
            cand = [b for b in rw.GetBonds() if b.GetBondType() in (Chem.BondType.SINGLE, Chem.BondType.DOUBLE) and not b.GetIsAromatic()
                    and b.GetBeginAtom().GetTotalNumHs() > 0 and b.GetEndAtom().GetTotalNumHs() > 0]
            if not cand:
                return None
            b = rnd.choice(cand)
            b.SetBondType(Chem.BondType.DOUBLE if b.GetBondType() == Chem.BondType.SINGLE else Chem.BondType.TRIPLE)
        elif op == 'ring' and len(withH) >= 2:
            i, j = rnd.sample(withH, 2)
            if rw.GetBondBetweenAtoms(i, j) is not None or len(Chem.GetShortestPath(rw, i, j)) < 3:
                return None
            rw.AddBond(i, j, Chem.BondType.SINGLE)
        elif op == 'radical' and withH:
            a = rw.GetAtomWithIdx(rnd.choice(withH))
            h = a.GetTotalNumHs()
            a.SetNoImplicit(True)
            a.SetNumExplicitHs(h - 1)
            a.SetNumRadicalElectrons(a.GetNumRadicalElectrons() + 1)
        elif op == 'metal' and withH:
            i = rnd.choice(withH)
            j = rw.AddAtom(Chem.Atom(metal))
            rw.AddBond(i, j, Chem.BondType.SINGLE)
        elif op == 'delete' and rw.GetNumAtoms() > 1:
            term = [a.GetIdx() for a in rw.GetAtoms() if a.GetDegree() == 1]
            if not term:
                return None
            rw.RemoveAtom(rnd.choice(term))
        else:
            return None
        m2 = rw.GetMol()
        Chem.SanitizeMol(m2)
        if m2.GetNumHeavyAtoms() > 16 or len(Chem.GetMolFrags(m2)) > 1:
            return None
        return Chem.MolToSmiles(m2)
    except Exception:
        return None


def run_guided(ctx, fam, n):
    """per shard: a corpus per scheme, grown whenever a mutant makes the reference interpreter hit a pattern it had not hit"""
    import random
    rnd = random.Random(ctx.hseed('guided'))
    libs = [L for k, L in enumerate(shipped.LIBS) if k % ctx.nshards == ctx.shard % len(shipped.LIBS) or ctx.nshards == 1] or \
        [shipped.LIBS[ctx.shard % len(shipped.LIBS)]]
    for L in libs:
        ref, h = ref_scheme(L)
        real = real_scheme(L)
        gas = L in ('BensonGA', 'PPY')
        metal = None if gas else ('Ru' if L == 'XieGA2022' else 'Pt')
        corpus = ['CC', 'C=CC', 'CCO', 'CC=O', 'c1ccccc1', 'C1CCCCC1', 'CC(C)C'] + ([] if gas else ['C[%s]' % metal, '[%s]CC[%s]' % (metal, metal), 'OC[%s]' % metal])
        corpus += scheme_witnesses(L)
        corr = set(nm for nm, _ in ref.desc)
        before = len(ref.hits)
        for it in range(n):
            base = rnd.choice(corpus)
            smi = base
            for _ in range(rnd.choice([1, 1, 2, 3])):
                smi = mutate(smi, rnd, metal, gas) or smi
            if smi == base or molgen.has_fused_aromatic(smi):
                continue
            nh = len(ref.hits)
            ctx.begin('coverage-guided', dict(kind='shipped', lib=L, smiles=smi))
            res, want = compare(ctx, real.GetDescriptors, ref, smi, L, corr_names=corr)
            ctx.case(nontrivial=True, key=[h, smi], sample=dict(scheme=L, smiles=smi, found_by='coverage-guided mutation of %s' % base))
            ctx.event('guided:cases')
            if len(ref.hits) > nh:
                corpus.append(smi)
                ctx.event('guided:new-pattern-hit')
        ctx.event('guided:patterns-gained', len(ref.hits) - before)
    coverage_note(ctx)


def synthetic_strategy(tier):
    from props.C02_synth import scheme_case
    return scheme_case()


FAMILIES = [
    Family('shipped-schemes', check_any, strategy=lambda tier: shipped_case(), n=(3000, 150000)),
    Family('synthetic-schemes', check_any, strategy=synthetic_strategy, n=(1000, 40000)),
    Family('small-molecules-exhaustive', check_any, enumerate=enum_small),
    Family('pattern-witnesses', check_any, enumerate=enum_witnesses),
    Family('coverage-guided', check_any, stateful=run_guided, n=(16 * 600, 16 * 20000)),
]
