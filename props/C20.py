"""C20 - Standard errors are the scaled quadratic form of the descriptors.

Oracle: reference quadratic form |RMSE_X(T)| * sqrt(x' M x) with M and the basis read straight from the YAML file;
metamorphic scaling (SE(k x) = |k| SE(x)) and permutation of the mapping; out-of-basis descriptors must raise.
"""
import math
import types
import warnings

import numpy as np
from hypothesis import strategies as st

from vlib.core import Family
from vlib import thermogen as TG
from vlib import shipped

PROPERTY = 'C20'
RULE = ('the three shipped libraries with uncertainty data: every unit vector of the basis (exhaustive) and Hypothesis '
        'mappings of 1-15 basis descriptors with integer and fractional counts, each also scaled by k in '
        '{-3,-1,0.5,2,10} and re-ordered, optionally with one out-of-basis descriptor; synthetic in-memory libraries '
        '(3-8 descriptors) with a generated PSD matrix A\'A; T across the RMSE correlation\'s table; Cp/R, H/RT, S/R. '
        'Non-trivial = >= 2 non-zero entries in x (off-diagonal terms matter). Distinct = distinct (library, mapping).')
ASSUMPTIONS = ['the RMSE correlation object loaded by the library is the reference for RMSE_X(T) (correlations are C05\'s '
               'business); matrix and basis are read from uq.yaml with yaml.safe_load, independent of the loader',
               'tolerance 1e-10 relative (+1e-300)']

_m = {}
PROPS = ['CpoR', 'HoRT', 'SoR']
SCALES = [-3, -1, 0.5, 2, 10, 1e-5, -1e-7, 1e3]      # incl. very small common factors: x'Mx scales with k*k, the error with |k|


def uq_raw(L):
    if L not in _m:
        d = shipped.raw_yaml(L, 'uq.yaml')['UQ']
        _m[L] = (list(d['InvCovMat']['groups']), np.array(d['InvCovMat']['mat'], dtype=float))
    return _m[L]


def quiet(fn, *a):
    with warnings.catch_warnings():
        warnings.simplefilter('ignore')
        return fn(*a)


def core(ctx, lib, basis, M, rmse, keys, counts, extra, Ts, label, perm):
    """keys: basis descriptor names; extra: out-of-basis descriptor names"""
    gone = [k for k in keys if k not in basis]
    if gone:
        # (only saved cases get here: generated keys are drawn from the stored basis itself)
        ctx.fail('descriptor-no-longer-in-the-stored-basis', '[%s] %s: the uncertainty basis as stored does not list %s (it did when this case was saved)' % (label, keys, gone))
        return
    x = np.zeros(len(basis))
    for k, c in zip(keys, counts):
        x[basis.index(k)] += c
    q = float(x @ M @ x)
    nz = int(np.count_nonzero(x))
    ctx.case(nontrivial=nz >= 2 or bool(extra), key=[label, keys, counts, extra],
             sample=dict(library=label, mapping=dict(zip(keys, counts)), out_of_basis=extra, xMx=q))
    ctx.event('nonzero-entries:%s' % (nz if nz < 5 else '5+'))
    ctx.event('out-of-basis' if extra else 'in-basis')
    mapping = dict(zip(keys, counts))
    for e in extra:
        mapping[e] = 1
    if extra:
        # must be an error from Estimate or from the SE call, never a number
        try:
            est = lib.Estimate(mapping, 'thermochem')
            v = est.get_HoRT_SE(Ts[0])
        except Exception:
            ctx.event('out-of-basis:rejected')
        else:
            ctx.fail('out-of-basis-descriptor-ignored', '[%s] mapping with %s (not in the uncertainty basis) gave SE %r' % (label, extra, v))
            return
        # the refused request leaves nothing behind: the same library object goes on to answer a mapping over only SOME of the
        # descriptors it had just been given (and then the whole mapping without the out-of-basis one), checked like any other
        after = ' (after a refused estimate with an out-of-basis descriptor)'
        if len(keys) >= 2 and 'after a refused' not in label:
            core(ctx, lib, basis, M, rmse, keys[:1], counts[:1], [], Ts, label + after, keys[:1])
            core(ctx, lib, basis, M, rmse, keys, counts, [], Ts, label + after, perm)
        return
    if q < -1e-9 * float(np.abs(M).max()) * max(1.0, float(x @ x)):
        ctx.event('negative-quadratic-form(C14)')
        return
    if abs(q) <= 1e-12 * float(np.abs(M).max()) * max(1.0, float(x @ x)) and q != 0.0:
        # x lies in the null space and round-off decides the sign of x'Mx (synthetic matrices with an antisymmetric part)
        ctx.event('skip:quadratic-form-is-round-off')
        return
    try:
        given = dict(mapping)
        est = lib.Estimate(given, 'thermochem')
        # the estimate is a value: what happens to the mapping object afterwards (re-used for the next molecule) is not its business
        for k in list(given):
            given[k] = given[k] * 3
        given[basis[0]] = given.get(basis[0], 0) + 1
        est_p = lib.Estimate({k: mapping[k] for k in perm}, 'thermochem')
    except Exception as e:
        ctx.fail('estimate-raises:%s' % type(e).__name__, '[%s] Estimate(%s) raised %s: %s' % (label, mapping, type(e).__name__, e))
        return
    for X in PROPS:
        for T in Ts:
            r = abs(quiet(getattr(rmse, 'get_' + X), T))
            want = r * math.sqrt(max(q, 0.0))
            try:
                got = quiet(getattr(est, 'get_%s_SE' % X), T)
                got_p = quiet(getattr(est_p, 'get_%s_SE' % X), T)
            except Exception as e:
                ctx.fail('SE-raises:%s' % type(e).__name__, '[%s] get_%s_SE(%r) raised %s: %s' % (label, X, T, type(e).__name__, e))
                return
            ctx.count()
            if type(got) is not float:
                ctx.fail('SE-not-a-plain-float', '[%s] get_%s_SE(%r) -> %r (%s)' % (label, X, T, got, type(got).__name__))
                return
            if not (got >= 0 and math.isfinite(got)):
                ctx.fail('SE-negative-or-nonfinite', '[%s] get_%s_SE(%r) = %r' % (label, X, T, got))
                return
            if abs(got - want) > 1e-10 * abs(want) + 1e-60:   # (floor: squaring an RMSE below 1e-150 underflows)
                ctx.fail('SE-not-the-quadratic-form:%s' % X, '[%s] get_%s_SE(%r) = %r, |RMSE|*sqrt(x\'Mx) = %r (x\'Mx=%r, RMSE=%r, mapping %s)'
                         % (label, X, T, got, want, q, r, mapping))
                return
            if got_p != got:
                ctx.fail('SE-depends-on-mapping-order', '[%s] get_%s_SE(%r) = %r, re-ordered mapping gives %r' % (label, X, T, got, got_p))
                return
    # the same descriptors with the counts re-assigned (rotated), listed so that the sequence of counts in listing
    # order is unchanged: a result remembered from the first mapping must not be served for the second
    if len(keys) >= 2:
        rk = keys[1:] + keys[:1]
        rot = dict(zip(rk, counts))
        xr = np.zeros(len(basis))
        for k, c in rot.items():
            xr[basis.index(k)] += c
        qr = float(xr @ M @ xr)
        if qr >= 0:
            T = Ts[0]
            try:
                est_r = lib.Estimate(rot, 'thermochem')
                for X in PROPS:
                    got = quiet(getattr(est_r, 'get_%s_SE' % X), T)
                    want = abs(quiet(getattr(rmse, 'get_' + X), T)) * math.sqrt(qr)
                    ctx.count()
                    if abs(got - want) > 1e-10 * abs(want) + 1e-60:
                        ctx.fail('SE-not-the-quadratic-form:after-reassigned-counts', '[%s] after Estimate(%s), Estimate(%s).get_%s_SE(%r) = %r, reference %r'
                                 % (label, mapping, rot, X, T, got, want))
                        return
            except Exception as e:
                ctx.fail('SE-raises:%s' % type(e).__name__, '[%s] re-assigned mapping raised %s: %s' % (label, type(e).__name__, e))
                return
    # scaling
    T = Ts[len(Ts) // 2]
    base = {X: quiet(getattr(est, 'get_%s_SE' % X), T) for X in PROPS}
    for k in SCALES:
        try:
            est_k = lib.Estimate({g: k * c for g, c in mapping.items()}, 'thermochem')
            for X in PROPS:
                got = quiet(getattr(est_k, 'get_%s_SE' % X), T)
                ctx.count()
                if base[X] == 0.0 and abs(q) <= 1e-9 * float(np.abs(M).max()) * max(1.0, float(x @ x)):
                    continue            # x'Mx is round-off around zero (x in the null space): nothing to scale
                if abs(got - abs(k) * base[X]) > 1e-10 * abs(k) * base[X] + 1e-60:   # (same underflow floor as above)
                    ctx.fail('SE-scaling', '[%s] SE_%s(%r * x) = %r, |k| * SE(x) = %r' % (label, X, k, got, abs(k) * base[X]))
                    return
        except Exception as e:
            ctx.fail('SE-raises:%s' % type(e).__name__, '[%s] scaled mapping k=%r raised %s: %s' % (label, k, type(e).__name__, e))
            return


# -- shipped -------------------------------------------------------------------------------------------------
def enum_unit(tier):
    for L in shipped.UQ_LIBS:
        basis, _ = uq_raw(L)
        for g in basis:
            yield dict(kind='shipped', lib=L, keys=[g], counts=[1], extra=[], tf=[0.0, 0.5, 1.0])


def enum_directions(tier):
    """the directions in which the stored matrix is weakest: eigenvectors of its smallest eigenvalues, as count vectors (exact
    and rounded to whole counts) - if the stored numbers are not a positive semi-definite matrix this is where the standard
    error stops being a non-negative number"""
    for L in shipped.UQ_LIBS:
        basis, M = uq_raw(L)
        w, V = np.linalg.eigh(0.5 * (M + M.T))
        for k in range(3):
            v = V[:, k] / np.abs(V[:, k]).max()
            for scale, rnd in ((1.0, False), (12.0, True), (40.0, True)):
                x = np.round(v * scale) if rnd else v * scale
                keys = [b for b, c in zip(basis, x) if c != 0]
                if keys:
                    yield dict(kind='direction', lib=L, keys=keys, counts=[float(c) for c in x if c != 0], eig=float(w[k]))


def check_direction(ctx, case):
    L = case['lib']
    lib = shipped.lib(L)
    basis, M = uq_raw(L)
    x = np.zeros(len(basis))
    for k, c in zip(case['keys'], case['counts']):
        x[basis.index(k)] = c
    q = float(x @ M @ x)
    ctx.case(nontrivial=True, key=['direction', L, case['keys'], case['counts']], sample=dict(library=L, smallest_eigenvalue=case['eig'], xMx=q, nonzero=len(case['keys'])))
    ctx.event('direction:%s' % L)
    try:
        est = lib.Estimate(dict(zip(case['keys'], case['counts'])), 'thermochem')
    except Exception as e:
        ctx.fail('estimate-raises:%s' % type(e).__name__, '[%s] Estimate along a weak direction raised %s: %s' % (L, type(e).__name__, e))
        return
    rmse = lib.uq_contents['RMSE'].thermochem
    for X in PROPS:
        T = 500.0
        with warnings.catch_warnings():
            warnings.simplefilter('ignore')
            try:
                got = getattr(est, 'get_%s_SE' % X)(T)
            except Exception as e:
                ctx.fail('SE-raises:%s' % type(e).__name__, '[%s] get_%s_SE(%r) raised %s: %s' % (L, X, T, type(e).__name__, e))
                return
        ctx.count()
        if not (isinstance(got, float) and got >= 0 and math.isfinite(got)):
            ctx.fail('SE-negative-or-nonfinite', '[%s] get_%s_SE(%r) = %r along the eigenvector of the stored matrix\'s eigenvalue %g (x\'Mx = %g over %d descriptors)'
                     % (L, X, T, got, case['eig'], q, len(case['keys'])))
            return
        want = abs(quiet(getattr(rmse, 'get_' + X), T)) * math.sqrt(max(q, 0.0))
        if abs(got - want) > 1e-8 * abs(want) + 1e-60:
            ctx.fail('SE-not-the-quadratic-form:%s' % X, '[%s] get_%s_SE(%r) = %r, |RMSE|*sqrt(x\'Mx) = %r along a weak direction' % (L, X, T, got, want))
            return


@st.composite
def shipped_case(draw):
    L = draw(st.sampled_from(shipped.UQ_LIBS))
    basis, _ = uq_raw(L)
    keys = draw(st.lists(st.sampled_from(basis), min_size=1, max_size=15, unique=True))
    counts = [draw(st.one_of(st.integers(-3, 6), st.sampled_from([0.5, 0.217, 1.5, -0.25, 1, 2]))) for _ in keys]
    extra = [draw(st.sampled_from(['NotInBasis', 'C(Zz)(H)3', 'Xx']))] if draw(st.integers(0, 5)) == 0 else []
    return dict(kind='shipped', lib=L, keys=keys, counts=counts, extra=extra,
                tf=[draw(st.floats(0, 1)) for _ in range(3)], perm_seed=draw(st.integers(0, 10 ** 6)))


def check_shipped(ctx, case):
    L = case['lib']
    lib = shipped.lib(L)
    basis, M = uq_raw(L)
    rmse = lib.uq_contents['RMSE'].thermochem
    ts = sorted(rmse.ND_Cp_data)
    Ts = [ts[0] + (ts[-1] - ts[0]) * f for f in case['tf']]
    # the usual evaluation temperatures and the RMSE correlation's own reference temperature
    Ts += [t for t in (298.15, 298.0, float(rmse.T_ref)) if ts[0] <= t <= ts[-1]][:1 + case.get('perm_seed', 0) % 3]
    keys = list(case['keys'])
    import random
    perm = list(keys)
    random.Random(case.get('perm_seed', 0)).shuffle(perm)
    ctx.event('library:%s' % L)
    core(ctx, lib, basis, M, rmse, keys, case['counts'], case['extra'], Ts, L, perm)


# -- synthetic ------------------------------------------------------------------------------------------------
def _no_range(spec):
    """ranges are C06's business: keep every constituent valid on one common interval"""
    spec = dict(spec)
    spec['Ts'] = [200.0 + 100.0 * i for i in range(len(spec['Ts']))]
    spec['T_ref'] = spec['Ts'][0]
    spec['range'] = [100.0, 2000.0]
    return spec


@st.composite
def synthetic_case(draw):
    n = draw(st.integers(3, 8))
    specs = [_no_range(draw(TG.group_spec(cp='yes', H='yes', S='yes', with_range='no'))) for _ in range(n)]
    rows = draw(st.integers(1, n + 2))
    whole = draw(st.integers(0, 3)) == 0      # a matrix of whole numbers only (a YAML file then holds integers)
    A = [[draw(st.sampled_from([0, 0, 1, -1, 2] if whole else [0, 0, 1, -1, 0.5, 2, -0.3])) for _ in range(n)] for _ in range(rows)]
    rm = _no_range(draw(TG.group_spec(cp='yes', H='yes', S='yes', with_range='no')))
    idx = draw(st.lists(st.integers(0, n - 1), min_size=1, max_size=n, unique=True))
    counts = [draw(st.one_of(st.integers(-3, 6), st.sampled_from([0.5, 0.217, 1.5]))) for _ in idx]
    extra = ['Outside'] if draw(st.integers(0, 5)) == 0 else []
    basis_order = list(draw(st.permutations(range(n))))
    # the stored matrix need not be symmetric: an antisymmetric part leaves x'Mx as it is but makes the two triangles differ
    skew = [[draw(st.sampled_from([0, 0, 1, -2] if whole else [0, 0, 1, -2, 0.25])) for _ in range(n)] for _ in range(n)] if draw(st.booleans()) else None
    return dict(kind='synthetic', specs=specs, A=A, rmse=rm, idx=idx, counts=counts, extra=extra, skew=skew, whole=whole,
                basis_order=basis_order, tf=[draw(st.floats(0, 1)) for _ in range(2)])


def check_synthetic(ctx, case):
    specs = case['specs']
    n = len(specs)
    names = ['G%d' % (9 - i) for i in range(n)]      # not in alphabetical order
    basis = [names[i] for i in case['basis_order']]      # the basis order differs from the library's own order
    A = np.array(case['A'], dtype=float)
    M = A.T @ A
    if case.get('skew'):
        B = np.array(case['skew'], dtype=float)
        M = M + (B - B.T)
        ctx.event('synthetic:stored-matrix-not-symmetric')
    rmse = TG.build_group(case['rmse'])
    Mstored = M.astype(int) if case.get('whole') and np.all(M == np.round(M)) else M.copy()
    if Mstored.dtype.kind == 'i':
        ctx.event('synthetic:stored-matrix-of-integers')
    uq = dict(RMSE=types.SimpleNamespace(thermochem=rmse), descriptors=list(basis), mat=Mstored, dof=10)
    specs2 = specs + ([TG_dummy()] if case['extra'] else [])
    if sum(case['idx']) % 2 == 0:
        lib = TG.build_library(specs2, names=names + (['Outside'] if case['extra'] else []), uq=uq)
        ctx.event('synthetic:in-memory')
    else:
        # the same library written to disk and loaded: the basis order in the file is not the alphabetical one
        from vlib import libgen as LG
        from pgradd.GroupAdd.Library import GroupLibrary
        nd = dict(H=('nd',), S=('nd',), Cp=('nd',), T=('explicit', 'K'))

        def ab(sp):
            return dict(T_ref=sp['T_ref'], H=sp['H'], S=sp['S'], cp=[[t, c] for t, c in zip(sp['Ts'], sp['Cps'])], range=sp['range'])
        with LG.TempLib() as tl:
            groups = {nm: ab(sp) for nm, sp in zip(names + (['Outside'] if case['extra'] else []), specs2)}
            tl.write('library.yaml', LG.render_file(groups, lambda nm: nd) + LG.render_uq(ab(case['rmse']), basis, Mstored.tolist()))
            with warnings.catch_warnings():
                warnings.simplefilter('ignore')
                lib = GroupLibrary.Load(tl.path())
        rmse = lib.uq_contents['RMSE'].thermochem
        ctx.event('synthetic:loaded-from-file')
    keys = [names[i] for i in case['idx']]
    ts = case['rmse']['Ts']
    Ts = [150.0 + 1500.0 * f for f in case['tf']]
    ctx.event('library:synthetic')
    core(ctx, lib, basis, M, rmse, keys, case['counts'], case['extra'], Ts, 'synthetic', list(reversed(keys)))
    # uncertainty data belong to the library object that was given them: one assembled from this library by the constructor and
    # Update() answers alike; one built from the same groups WITHOUT an uncertainty block has no standard errors to give
    from pgradd.GroupAdd.Library import GroupLibrary
    try:
        a = GroupLibrary(None)
        a.Update(lib)
        b = GroupLibrary(None, {k: dict(lib[k]) for k in lib})
    except Exception as e:
        ctx.fail('assembly-raises:%s' % type(e).__name__, 'GroupLibrary(None).Update(library with uncertainty data) raised %s: %s' % (type(e).__name__, e))
        return
    ctx.count()
    ctx.event('synthetic:assembled-and-plain-siblings')
    if not case['extra']:
        core(ctx, a, basis, M, rmse, keys, case['counts'], [], Ts[:1], 'synthetic (assembled by constructor + Update)', list(reversed(keys)))
    try:
        eb = b.Estimate(dict(zip(keys, case['counts'])), 'thermochem')
        vb = eb.get_HoRT_SE(Ts[0])
    except Exception:
        return
    ctx.fail('standard-error-from-a-library-without-uncertainty-data', 'a library built from the same groups without an uncertainty block returned get_HoRT_SE = %r '
             '(after another library object had been given uncertainty data)' % (vb,))


def TG_dummy():
    return dict(H=1.0, S=1.0, Ts=[300.0, 400.0], Cps=[1.0, 2.0], T_ref=300.0, range=None)


def check_any(ctx, case):
    return {'shipped': check_shipped, 'synthetic': check_synthetic, 'direction': check_direction}[case['kind']](ctx, case)


FAMILIES = [
    Family('unit-vectors', check_any, enumerate=enum_unit),
    Family('weakest-directions', check_any, enumerate=enum_directions),
    Family('shipped', check_any, strategy=lambda tier: shipped_case(), n=(2500, 100000)),
    Family('synthetic', check_any, strategy=lambda tier: synthetic_case(), n=(2000, 80000)),
]
