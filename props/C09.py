"""C09 - Reading RING text always ends with a query or a RING error.

Oracle: outcome-class predicate + deterministic step bound + 'junk suffix' metamorphic relation.
Bounded time is a step bound, not a clock: ParseState.peek/take are wrapped with a counter; more than
2000 + 200*len(text) calls aborts the read and is classified as non-termination (measured: at most 3.6 calls per
character over 6000 valid and mutated texts, so the bound leaves > 50x head-room).
"""
import re
import signal
import sys

from hypothesis import strategies as st

from vlib.core import Family
from vlib import ringast, ruleast

PROPERTY = 'C09'
RULE = ('(1) valid fragments and reaction rules from the grammar generators with random layout; (2) every prefix of each '
        '(all truncation points); (3) token-level deletions, substitutions, duplications, insertions and transpositions; '
        '(4) label misuse (undefined, duplicate, self-bond, keyword-like and token-name-like labels); (5) recognised but '
        'unsupported constructs (boolean operators, group references, constraints blocks, duplicates); (6) random printable, '
        'whitespace-only, empty and non-ASCII text; each accepted text again with a trailing junk token. Non-trivial = the '
        'text is not accepted, or is a strict prefix / mutation of an accepted text. Distinct = distinct texts.')
ASSUMPTIONS = ['step bound 2000 + 200*len peek/take calls (measured maximum 3.6 per character on valid and mutated texts); a 20 s SIGALRM '
               'watchdog is only a backstop for loops that never touch the stream and counts as inconclusive unless reproduced',
               'a returned object must be a MolQuery or ReactionQuery; RINGSyntaxError must carry 1 <= lineno <= lines+1, '
               '1 <= colno <= len(line)+1 and a str() that does not raise']

_m = {}
_cnt = [0, 0]


class StepLimit(BaseException):
    pass


class Watchdog(BaseException):
    pass


def _pg():
    if not _m:
        from pgradd.RINGParser import Read
        from pgradd.RINGParser import Parser as P
        from pgradd.Error import RINGSyntaxError, RINGReaderError, RINGError
        from pgradd.RDkitWrapper.MolQuery import MolQuery
        from pgradd.RDkitWrapper.ReactionQuery import ReactionQuery
        PS = getattr(P, 'ParseState', None)
        if PS is None or not (hasattr(PS, 'peek') and hasattr(PS, 'take')):
            # the parser no longer has the two primitives the step counter hooks: count Python-level calls made
            # while reading instead (same idea, implementation-agnostic, 10x the bound)
            _m['profile'] = True
        elif not getattr(PS, '_verif_wrapped', False):
            op, ot = PS.peek, PS.take

            def peek(self, n=1):
                _cnt[0] += 1
                if _cnt[0] > _cnt[1]:
                    raise StepLimit()
                return op(self, n)

            def take(self, n=1):
                _cnt[0] += 1
                if _cnt[0] > _cnt[1]:
                    raise StepLimit()
                return ot(self, n)
            PS.peek, PS.take, PS._verif_wrapped = peek, take, True
        _m.update(Read=Read, RSE=RINGSyntaxError, RRE=RINGReaderError, RE=RINGError, MolQuery=MolQuery, ReactionQuery=ReactionQuery)
    return _m


def _prof(frame, event, arg):
    if event == 'call':
        _cnt[0] += 1
        if _cnt[0] > _cnt[1]:
            sys.setprofile(None)
            raise StepLimit()


def _alarm(signum, frame):
    raise Watchdog()


def read(text):
    """-> (class, detail)"""
    m = _pg()
    _cnt[0] = 0
    _cnt[1] = 2000 + 200 * len(text)
    old = signal.signal(signal.SIGALRM, _alarm)
    signal.alarm(20)
    try:
        if m.get('profile'):
            _cnt[1] *= 10
            sys.setprofile(_prof)
            try:
                q = m['Read'](text)
            finally:
                sys.setprofile(None)
        else:
            q = m['Read'](text)
    except StepLimit:
        return ('nontermination', 'more than %d parser steps for %d characters' % (_cnt[1], len(text)))
    except Watchdog:
        return ('watchdog', '20 s without finishing')
    except m['RSE'] as e:
        lines = text.split('\n')
        ok = isinstance(e.lineno, int) and isinstance(e.colno, int) and 1 <= e.lineno <= len(lines) + 1
        if ok and e.lineno <= len(lines):
            ok = 1 <= e.colno <= len(lines[e.lineno - 1]) + 1
        elif ok:
            ok = e.colno >= 1
        try:
            s = str(e)
        except Exception as e2:
            return ('syntax-error-str-raises', '%s: %s' % (type(e2).__name__, e2))
        if not ok:
            return ('syntax-error-position-outside-text', 'line %r column %r for a text of %d lines' % (e.lineno, e.colno, len(lines)))
        return ('RINGSyntaxError', s[:80])
    except m['RRE'] as e:
        return ('RINGReaderError', str(e)[:80])
    except NotImplementedError as e:
        return ('NotImplementedError', str(e)[:80])
    except Exception as e:
        import traceback
        inner = [fr for fr in traceback.extract_tb(e.__traceback__) if '/pgradd/' in fr.filename]
        where = '%s:%s' % (inner[-1].filename.split('/pgradd/')[-1].split('/')[-1], inner[-1].name) if inner else '?'
        return ('stray:%s:%s' % (type(e).__name__, where), str(e)[:120])
    finally:
        signal.alarm(0)
        signal.signal(signal.SIGALRM, old)
    if isinstance(q, (m['MolQuery'], m['ReactionQuery'])):
        return ('accepted', type(q).__name__)
    return ('returned-other-object', repr(q)[:80])


GOOD = ('accepted', 'RINGSyntaxError', 'RINGReaderError', 'NotImplementedError')
JUNK = ['%%', '}', 'fragment', '@', '{', ')', 'garbage text', 'C labeled zz9', '#', '\x00', 'é']


def judge(ctx, text, family, base_accepted=None, junk=True):
    cls, detail = read(text)
    nontriv = cls != 'accepted' or base_accepted is True
    ctx.case(nontrivial=nontriv, key=text, sample=dict(text=text[:200], family=family, outcome=cls))
    ctx.event('%s:%s' % (family, cls.split(':')[0]))
    if cls == 'watchdog':
        ctx.event('inconclusive:watchdog')
        return cls
    if cls not in GOOD:
        key = cls if not cls.startswith('stray') else cls
        ctx.fail(key, '%s: %s\ntext (%d chars): %r' % (cls, detail, len(text), text[:400]))
        return cls
    if cls == 'accepted' and junk:
        # consumed in full: the same text followed by something that cannot continue any construct must not be accepted
        j = JUNK[sum(map(ord, text)) % len(JUNK)]
        # separators: the language's own fillers, and white space that is NOT a filler of the language (carriage return,
        # vertical tab, form feed, no-break and typographic spaces, line separator): nothing may hide the junk
        exotic = ['\r', '\x0b', '\x0c', '\xa0', '\u2003', '\u2028', '\x85', '\x1c', '\u3000'][sum(map(ord, text)) % 9]
        for sep in (' ', '\n', exotic, ' ' + exotic + ' '):
            c2, d2 = read(text + sep + j)
            ctx.count()
            if c2 == 'accepted':
                ctx.fail('trailing-text-accepted', 'accepted although followed by junk %r: %r' % (j, (text + sep + j)[:400]))
                break
            if c2 not in GOOD and c2 != 'watchdog':
                ctx.fail(c2, 'with trailing junk %r: %s: %s\ntext: %r' % (j, c2, d2, (text + sep + j)[:400]))
                break
    return cls


@st.composite
def two_reactant_rule(draw):
    """a rule over TWO reactant patterns; the edits address atoms of either one (and may join the two)"""
    r1, r2 = draw(ruleast.rule()), draw(ruleast.rule())
    for k, a in enumerate(r1['reactant']['atoms']):
        a['label'] = 'a%d' % k
    for k, a in enumerate(r2['reactant']['atoms']):
        a['label'] = 'b%d' % k
    l1 = [a['label'] for a in r1['reactant']['atoms']]
    l2 = [a['label'] for a in r2['reactant']['atoms']]
    sp = lambda: ' '
    s0 = lambda: ''
    parts = ['rule two{', ringast.render(dict(r1['reactant'], name='m1'), None, keyword='reactant'),
             ringast.render(dict(r2['reactant'], name='m2'), None, keyword='reactant')]
    edits = [ruleast.edit_text(e, l1, sp, s0) for e in r1['edits']] + [ruleast.edit_text(e, l2, sp, s0) for e in r2['edits']]
    if draw(st.booleans()):
        x, y = draw(st.sampled_from(l1)), draw(st.sampled_from(l2))
        edits += ['form bond (%s, %s)' % (x, y), 'decrease number of radical (%s)' % x, 'decrease number of radical (%s)' % y]
    order = draw(st.permutations(range(len(edits))))
    return ' '.join(parts + [edits[i] for i in order] + ['}'])


@st.composite
def valid_text(draw):
    lay = draw(ringast.layout())
    if draw(st.integers(0, 7)) == 0:
        return draw(two_reactant_rule())
    if draw(st.integers(0, 2)) == 0:
        r = draw(ruleast.rule())
        return ruleast.render(r, lay)
    f = draw(ringast.fragment(max_atoms=4, stereo=False))
    if draw(st.integers(0, 5)) == 0 and len(f['atoms']) >= 4:
        pass
    return ringast.render(f, lay)


STEREO_TEXTS = ['fragment a{C labeled c1 C labeled c2 double bond to c1 C labeled c3 single bond to c1 C labeled c4 single bond to c2 '
                'stereo double bond c3 cis to c4 for double bond between c1 and c2}',
                'fragment a{C labeled c1 C labeled c2 double bond to c1 $ labeled c3 single bond to c1 $ labeled c4 single bond to c2 '
                'stereo double bond c3 !trans to c4 for double bond between c1 and c2}']


def check_valid(ctx, case):
    judge(ctx, case['text'], 'valid')


def check_prefixes(ctx, case):
    text = case['text']
    base = read(text)[0] == 'accepted'
    step = 1 if (ctx.tier == 'thorough' or len(text) <= 120) else 2
    for k in range(0, len(text), step):
        judge(ctx, text[:k], 'prefix', base_accepted=base, junk=False)


TOKEN_RE = re.compile(r'[A-Za-z0-9_]+|\s+|.', re.S)
SUBST = ['fragment', 'rule', 'reactant', 'labeled', 'single', 'double', 'bond to', 'ringbond', 'connected to', 'in ring of size', 'in',
         'ring', 'has', 'radical electrons', 'with', 'bond', '{', '}', '(', ')', ',', '!', '>=', '<', '=', '1', '0', '12', 'C', 'c', 'H', '$',
         '&', 'X', '+', '-', '.', ':', '?', '*', 'any atom', 'heavy atom', 'group', 'constraints{', 'duplicates', '=>', 'form', 'break',
         'increase bond order', 'modify atomtype', 'positive', 'olefinic', 'cyclic', 'aromatic', 'allylic', 'stereo double bond', 'cis',
         'to', 'for double bond between', 'and', 'AtomLabel', 'Symbols', '||', '&&', '', ' ', '\n', 'é', 'Xe', 'Cl', '²', '①', '٣', '\ufb01', '\u01c6', '\ufb03']


@st.composite
def mutated_text(draw):
    text = draw(valid_text())
    toks = TOKEN_RE.findall(text)
    for _ in range(draw(st.integers(1, 3))):
        if not toks:
            break
        i = draw(st.integers(0, len(toks) - 1))
        how = draw(st.sampled_from(['delete', 'replace', 'insert', 'duplicate', 'swap']))
        if how == 'delete':
            del toks[i]
        elif how == 'replace':
            toks[i] = draw(st.sampled_from(SUBST))
        elif how == 'insert':
            toks.insert(i, draw(st.sampled_from(SUBST)))
        elif how == 'duplicate':
            toks.insert(i, toks[i])
        elif i + 1 < len(toks):
            toks[i], toks[i + 1] = toks[i + 1], toks[i]
    return dict(kind='mutated', text=''.join(toks), base=text)


LABEL_CASES = [
    'fragment a{C labeled c1 C labeled c2 single bond to zz}',
    'fragment a{C labeled c1 C labeled c1 single bond to c1}',
    'fragment a{C labeled c1 C labeled c2 single bond to c2}',
    'fragment a{C labeled AtomLabel C labeled c2 single bond to AtomLabel}',
    'fragment a{C labeled c1 C labeled AtomLabel single bond to c1}',
    'fragment a{C labeled Symbols C labeled BondType single bond to Symbols}',
    'fragment a{C labeled c1 C labeled c2 single bond to c1 ringbond c1 single bond to c1}',
    'fragment a{C labeled c1 C labeled c2 single bond to c1 ringbond c1 double bond to c2}',
    'fragment a{C labeled c1 C labeled c2 single bond to c1 ringbond c2 single bond to c9}',
    'fragment a{C labeled c1 ringbond c1 single bond to c1}',
    'fragment a{C labeled c1 {connected to >1 C} C labeled c2 single bond to c1 C labeled c2 single bond to c2}',
    'fragment a{C labeled c1 C labeled c2 double bond to c1 stereo double bond c1 cis to c2 for double bond between c1 and c2}',
    'fragment a{C labeled c1 C labeled c2 double bond to c1 stereo double bond c7 cis to c2 for double bond between c1 and c2}',
    'fragment a{C labeled c1 C labeled c2 single bond to c1 C labeled c3 single bond to c1 C labeled c4 single bond to c2 '
    'stereo double bond c3 cis to c4 for double bond between c1 and c2}',
    'rule r{reactant a{C labeled c1 H labeled h1 single bond to c1} break bond (c1, h9) increase number of radical (c1) increase number of radical (h1)}',
    'rule r{reactant a{C labeled c1 H labeled h1 single bond to c1} break bond (c1, c1)}',
    'rule r{reactant a{C labeled c1} reactant a{C labeled c1} form bond (c1, c1)}',
    'rule r{reactant a{C labeled c1 H labeled h1 single bond to c1} modify bond (c1, h1, ring)}',
    'rule r{reactant a{C labeled c1 H labeled h1 any bond to c1} break bond (c1, h1)}',
    'rule r{reactant a{C labeled c1} modify atomtype (c1, C.)}',
    'rule r{reactant a{C labeled c1} modify atomtype (c1, O+)}',
    'rule r{reactant a{C labeled c1} modify atomtype (c1, C)}',
    'rule r{reactant a{C labeled c1} modify number of radical (c1, 2)}',
    'fragment a{Xx labeled c1}', 'fragment a{Zz9 labeled c1}', 'fragment a{q labeled c1}', 'fragment a{cl labeled c1}',
    'fragment a{c labeled c1}', 'fragment a{c? labeled c1}', 'fragment a{n labeled c1 c labeled c2 aromatic bond to c1}',
    'fragment a{Xe labeled c1}', 'fragment a{Si labeled c1}', 'fragment a{M labeled m1}', 'fragment a{C* labeled c1}',
    'fragment a{allylic C labeled c1}',
]
UNSUPPORTED = [
    'fragment a{C labeled c1 {|| connected to C}}', 'fragment a{C labeled c1 {&& connected to C}}',
    'fragment a{C labeled c1 {+ connected to C}}', 'fragment a{C labeled c1 {- in ring of size 5}}',
    'fragment a{C labeled c1 {connected to group g}}', 'fragment a{C labeled c1 {connected to >1 group CH3 with single bond}}',
    'fragment a{C labeled c1 {|| in ring of size 5}}', 'fragment a{C labeled c1 {&& has 1 radical electrons}}',
    'fragment a{C labeled c1 {|| in 1 ring}}',
    'rule r{reactant a{C labeled c1} constraints{a.size < 5} increase number of radical (c1) decrease number of radical (c1)}',
    'rule r{reactant a{C labeled c1} constraints{fragment f{C labeled x} a contains f} increase number of radical (c1) decrease number of radical (c1)}',
    'rule r{reactant a{C labeled c1} reactant b duplicates a (c1 => c2) form bond (c1, c2) decrease number of radical (c1) decrease number of radical (c2)}',
    'rule r{reactant a group g (c1 => x1) increase number of radical (x1) decrease number of radical (x1)}',
    'rule r{reactant a{C labeled c1 C labeled c2 double bond to c1} stereo double bond c1 cis to c2 for double bond between c1 and c2}',
    'fragment a{C labeled c1 stereo double bond c1 || cis to c1 for double bond between c1 and c1}',
]


def enum_fixed(tier):
    for t in LABEL_CASES:
        yield dict(kind='label', text=t)
    for t in UNSUPPORTED:
        yield dict(kind='unsupported', text=t)
    for t in STEREO_TEXTS:
        yield dict(kind='valid', text=t)
    for t in ['', ' ', '\n', '\t \n', 'fragment', 'rule', 'fragment a', 'fragment a{', 'fragment a{}', 'fragment a{C', 'fragment abc',
              'fragment a{C labeled', 'fragment a{C labeled c1', 'fragment a{C labeled c1}', 'rule r{', 'rule r{}', 'rule r{reactant',
              'fragment a{C labeled c1} garbage', 'fragment a{C labeled c1}}', 'fragment a{C labeled c1} fragment b{C labeled c1}',
              'x', '{', '}', '$', 'C', '0', 'é', 'fragment é{C labeled c1}', 'fragment a{C labeled é}', 'fragment a{C labeled ١}',
              'fragment a{C labeled c1 {in ring of size ٣}}', 'fragment a{C labeled c1 {connected to >١ C}}',
              # deeply nested parentheses in a constraints block (reading time must stay proportional to the text)
              'rule r{reactant a{C labeled c1} constraints{' + '(' * 12 + 'a.size>2' + ')' * 12 + '} increase number of radical (c1) decrease number of radical (c1)}',
              'rule r{reactant a{C labeled c1} constraints{' + '(' * 30 + 'a.size>2' + ')' * 30 + '} increase number of radical (c1) decrease number of radical (c1)}',
              'rule r{reactant a{C labeled c1} constraints{' + '(' * 30 + 'a.size>2' + ')' * 7,
              # characters that become several under compatibility normalisation (ligatures, digraphs): positions refer to the text given
              'fragment \ufb01rst{C labeled', 'fragment \u01c6{C labeled c1', 'fragment a{C labeled \ufb031 C labeled', 'fragment \ufb04{C labeled c1 C labeled c2 single bond',
              # characters that count as digits without being decimal digits (superscripts, circled numbers)
              'fragment a{C labeled c1 {in ring of size ²}}', 'fragment a{C labeled c1 {connected to ²C}}', 'fragment a{C labeled c1 {in ①ring}}',
              'fragment a{C labeled c1 {has >=³ radical electrons}}', 'fragment a{C labeled c1 {connected to 1² C}}', 'fragment a{C labeled c1 {in ring of size 12}}']:
        yield dict(kind='edge', text=t)
    # prefixes of the fixed texts too (the generated ones get theirs in the prefix family)
    for t in LABEL_CASES[:6] + UNSUPPORTED[:4] + STEREO_TEXTS:
        yield dict(kind='prefixes', text=t)


def random_text():
    alpha = st.sampled_from(list('abcCHOXlfr{}()!,.:+-?*$&<>=0123456789 \n\t_') + ['fragment', 'labeled', ' bond to ', 'rule', 'reactant', 'é', 'ß', '١', '𝔸', '²', '①', '\ufb01', '\u01c6'])
    return st.one_of(st.text(alphabet=st.characters(min_codepoint=32, max_codepoint=126), max_size=60),
                     st.lists(alpha, max_size=40).map(''.join), st.text(max_size=30),
                     st.sampled_from(['', ' ', '\n\n', '\t']))


def check_any(ctx, case):
    k = case['kind']
    if k == 'prefixes':
        return check_prefixes(ctx, case)
    if k == 'mutated':
        base = read(case['base'])[0] == 'accepted'
        judge(ctx, case['text'], 'mutated', base_accepted=base and case['text'] != case['base'])
        return
    judge(ctx, case['text'], k)


def run_atheris(ctx, fam, n):
    from vlib import fuzzing

    def recheck(text):
        cls, detail = read(text)
        out = []
        if cls not in GOOD and cls != 'watchdog':
            out.append((cls, '%s: %s\ntext: %r' % (cls, detail, text[:300])))
        if cls == 'accepted' and text.endswith(' }') and read(text[:-2])[0] == 'accepted':
            out.append(('trailing-text-accepted', 'accepted although followed by junk: %r' % text[:300]))
        return out
    fuzzing.campaign(ctx, 'c09', n, recheck, corpus=LABEL_CASES[:4] + STEREO_TEXTS + UNSUPPORTED[:3])
    ctx.begin('atheris', dict(kind='random', text='fragment a{C labeled c1}'))
    ctx.case(nontrivial=True, key=['atheris', ctx.shard], sample=dict(family='atheris', note='coverage-guided campaign, see histogram'), evals=0)


FAMILIES = [
    Family('fixed', check_any, enumerate=enum_fixed),
    Family('valid', check_any, strategy=lambda tier: valid_text().map(lambda t: dict(kind='valid', text=t)), n=(4000, 60000)),
    Family('prefixes', check_any, strategy=lambda tier: valid_text().map(lambda t: dict(kind='prefixes', text=t)), n=(160, 6000)),
    Family('mutated', check_any, strategy=lambda tier: mutated_text(), n=(15000, 300000)),
    Family('random-text', check_any, strategy=lambda tier: random_text().map(lambda t: dict(kind='random', text=t)), n=(3000, 200000)),
    # thorough tier only: one libFuzzer campaign per shard (empty corpus on even shards, seeded on odd ones)
    Family('atheris', lambda ctx, case: judge(ctx, case['text'], 'atheris'), stateful=run_atheris, n=(0, 16 * 250000)),
]
