"""C05 - Correlations are thermodynamically consistent with their data.

Oracle: invariants at the data (knots, reference point), independent quadrature of the object's own Cp/R
(vlib.thermoref, 24-point composite Gauss-Legendre cut at every knot and table end) for the H and S
differences, constant extrapolation outside the table, G = H - S, and agreement of three construction
paths and of every supply order.
"""
import math

import numpy as np
from hypothesis import strategies as st

from vlib.core import Family
from vlib import thermoref as TR

PROPERTY = 'C05'
RULE = ('Hypothesis tables drawn cell-first: N class {1,2,3,4,5-16} x T_ref placement {below, first, interior-knot, '
        'interior-off-knot, last, above} x supply order {sorted, permuted}; temperatures strictly increasing with gaps '
        '>= 1 K, Cp/R in [-50,50], H_ref/S_ref incl. 0 and negatives, range = hull(table, T_ref) widened by random '
        'margins; each built directly (ThermochemRawData), through ThermochemGroup(dict) and from !ThermochemGroup YAML; '
        'evaluated at every knot, both range ends, T_ref and pairs straddling every break point. Plus every shipped '
        'group with Cp data. Non-trivial = N >= 2 and (an evaluation pair straddles a knot or table end, or T_ref lies '
        'outside the open table span, or the supply order is not sorted). Distinct = distinct generated tables.')
ASSUMPTIONS = ['the shape of the interpolant between knots is not asserted; the integrand of the reference quadrature is the '
               "object's own get_CpoR",
               'H tolerance 1e-9 x (integral of |Cp/R| + |H_ref T_ref| + 1); S tolerance 1e-4 x (L(T1)+L(T2)) + 1e-7 with '
               'L(T) = integral of |Cp/(R T)| from T_ref to T (the code uses scipy quad at default tolerance across knots; '
               'measured error up to 5.7e-6 L)',
               'the !ThermochemRawData YAML tag is not used by any shipped file or caller and is left out']

_m = {}


def _pg():
    if not _m:
        import pgradd.ThermoChem as TC
        from pgradd import yaml_io
        from pgradd.Error import IncompleteDataError, OutsideCorrelationError
        _m.update(Raw=TC.ThermochemRawData, Group=TC.ThermochemGroup, Inc=TC.ThermochemIncomplete, yaml_io=yaml_io,
                  IncompleteDataError=IncompleteDataError, OutsideCorrelationError=OutsideCorrelationError)
    return _m


NCLASS = ['1', '2', '3', '4', '5-16']
PLACE = ['below', 'first', 'interior-knot', 'interior-off-knot', 'last', 'above']


@st.composite
def table_case(draw):
    ncls = draw(st.sampled_from(NCLASS))
    n = {'1': 1, '2': 2, '3': 3, '4': 4}.get(ncls) or draw(st.integers(5, 16))
    place = draw(st.sampled_from(PLACE))
    if n < 3 and place == 'interior-knot':
        place = 'first' if n == 1 else 'interior-off-knot'
    if n < 2 and place == 'interior-off-knot':
        place = 'below'
    t0 = draw(st.one_of(st.integers(50, 1000), st.floats(50, 1000, allow_nan=False))) * 1.0
    gaps = [draw(st.one_of(st.integers(1, 400), st.floats(1, 400, allow_nan=False), st.just(1), st.just(100)))
            for _ in range(n - 1)]
    Ts = [t0]
    for g in gaps:
        Ts.append(Ts[-1] + float(g))
    if draw(st.booleans()):
        Ts = [round(t, 2) for t in Ts]
        for i in range(1, n):
            if Ts[i] - Ts[i - 1] < 1:
                Ts[i] = Ts[i - 1] + 1.0
    cpkind = draw(st.sampled_from(['rough', 'smooth', 'ints']))
    if cpkind == 'rough':
        Cps = [draw(st.floats(-50, 50, allow_nan=False)) for _ in range(n)]
    elif cpkind == 'ints':
        Cps = [float(draw(st.integers(-50, 50))) for _ in range(n)]
    else:
        a, b = draw(st.floats(0.5, 20)), draw(st.floats(0, 0.02))
        Cps = [a + b * (t - Ts[0]) for t in Ts]
    if place == 'below':
        T_ref = max(5.0, Ts[0] - draw(st.floats(1, 200)))
    elif place == 'first':
        T_ref = Ts[0]
    elif place == 'interior-knot':
        T_ref = Ts[draw(st.integers(1, n - 2))]
    elif place == 'interior-off-knot':
        i = draw(st.integers(0, n - 2))
        T_ref = Ts[i] + (Ts[i + 1] - Ts[i]) * draw(st.floats(0.05, 0.95))
    elif place == 'last':
        T_ref = Ts[-1]
    else:
        T_ref = Ts[-1] + draw(st.floats(1, 500))
    lo = min(Ts[0], T_ref)
    hi = max(Ts[-1], T_ref)
    mlo = draw(st.sampled_from([0.0, 0.0, 1.0, 37.5, 200.0]))
    mhi = draw(st.sampled_from([0.0, 0.0, 1.0, 120.0, 800.0]))
    rng = [max(1.0, lo - mlo), hi + mhi]
    H = draw(st.one_of(st.just(0.0), st.floats(-500, 500, allow_nan=False), st.integers(-100, 100).map(float)))
    S = draw(st.one_of(st.just(0.0), st.floats(-100, 100, allow_nan=False), st.integers(-50, 50).map(float)))
    order = list(draw(st.permutations(range(n)))) if draw(st.booleans()) else list(range(n))
    fr = [draw(st.floats(0.02, 0.98)) for _ in range(6)]
    return dict(kind='table', Ts=Ts, Cps=Cps, T_ref=T_ref, H_ref=H, S_ref=S, range=rng, order=order,
                cell=[ncls, place], fr=fr)


def eval_points(case):
    Ts, T_ref, (lo, hi) = case['Ts'], case['T_ref'], case['range']
    fr = case.get('fr') or [0.3, 0.7, 0.5, 0.2, 0.9, 0.6]
    brk = sorted(set(Ts + [T_ref]))
    pts = set([lo, hi, T_ref] + Ts)
    # a point strictly inside every interval between consecutive break points (incl. the margins)
    edges = sorted(set([lo, hi] + brk))
    for k, (a, b) in enumerate(zip(edges[:-1], edges[1:])):
        if b > a:
            pts.add(a + (b - a) * fr[k % len(fr)])
    return sorted(p for p in pts if lo <= p <= hi), brk


def close(a, b, tol):
    return abs(a - b) <= tol


def check_object(ctx, obj, case, label, brk, pts, H_ref, S_ref, T_ref, table):
    """invariants (a)-(e) for one constructed object"""
    m = _pg()
    Ts, Cps = table
    fails = []

    def f(tag, msg):
        fails.append(tag)
        ctx.fail('%s' % tag, '[%s] %s' % (label, msg))

    # (a) tabulated values reproduced
    for T, cp in zip(Ts, Cps):
        got = obj.get_CpoR(T)
        if not close(got, cp, 1e-9 * max(1.0, abs(cp))):
            f('knot-not-reproduced', 'CpoR(%r) = %r, table says %r' % (T, got, cp))
            break
    # (b) reference values
    gotH, gotS = obj.get_HoRT(T_ref), obj.get_SoR(T_ref)
    if not close(gotH, H_ref, 1e-12 * max(1.0, abs(H_ref))):
        f('H-at-Tref', 'HoRT(T_ref=%r) = %r, H_ref = %r' % (T_ref, gotH, H_ref))
    if not close(gotS, S_ref, 1e-12 * max(1.0, abs(S_ref))):
        f('S-at-Tref', 'SoR(T_ref=%r) = %r, S_ref = %r' % (T_ref, gotS, S_ref))
    # (d) constant extrapolation outside the table
    for T in pts:
        if T < Ts[0] and not close(obj.get_CpoR(T), obj.get_CpoR(Ts[0]), 1e-12 * max(1.0, max(abs(c) for c in Cps))):
            f('extrapolation-below', 'CpoR(%r) = %r but CpoR(T_first) = %r' % (T, obj.get_CpoR(T), obj.get_CpoR(Ts[0])))
            break
        if T > Ts[-1] and not close(obj.get_CpoR(T), obj.get_CpoR(Ts[-1]), 1e-12 * max(1.0, max(abs(c) for c in Cps))):
            f('extrapolation-above', 'CpoR(%r) = %r but CpoR(T_last) = %r' % (T, obj.get_CpoR(T), obj.get_CpoR(Ts[-1])))
            break
    # (c) integrals of the object's own Cp/R, from T_ref to every point and between neighbours
    def cp(t):
        return obj.get_CpoR(np.asarray(t, dtype=float))
    # the vectorised evaluation path is the integrand: it must agree with the scalar path it stands for
    arr = cp(np.array(pts))
    for T, v in zip(pts, arr):
        sv = obj.get_CpoR(T)
        if not close(sv, v, 1e-12 * max(1.0, abs(sv))):
            f('scalar-vs-array-CpoR', 'CpoR(%r) scalar %r, array %r' % (T, sv, v))
            break
    # the type of a scalar temperature does not matter either: int, numpy integer and numpy float ask the same question
    for T in [t for t in pts if float(t).is_integer()][:3]:
        ref = (obj.get_CpoR(float(T)), obj.get_HoRT(float(T)), obj.get_SoR(float(T)))
        for conv in (int, np.int64, np.float64):
            try:
                alt = (obj.get_CpoR(conv(T)), obj.get_HoRT(conv(T)), obj.get_SoR(conv(T)))
            except Exception as e:
                f('scalar-temperature-type:%s:raises-%s' % (conv.__name__, type(e).__name__), 'T=%s(%r): %s: %s' % (conv.__name__, T, type(e).__name__, e))
                break
            ctx.event('scalar-temperature-type:%s' % conv.__name__)
            if not all(close(a, b, 1e-12 * max(1.0, abs(a))) for a, b in zip(ref, alt)):
                f('scalar-temperature-type:%s' % conv.__name__, '(CpoR, HoRT, SoR) at %r as float %r, as %s %r' % (T, ref, conv.__name__, alt))
                break
    # an integer-typed array of temperatures is the same request as the float one (300 K is 300.0 K)
    ints = sorted({int(T) for T in pts if float(T).is_integer()} | {int(math.ceil(pts[0])), int(math.floor(pts[-1]))})
    ints = [t for t in ints if pts[0] <= t <= pts[-1]]
    if ints:
        got = obj.get_CpoR(np.array(ints, dtype=int))
        ctx.event('integer-temperature-array')
        for T, v in zip(ints, np.atleast_1d(got)):
            sv = obj.get_CpoR(float(T))
            if not close(sv, v, 1e-12 * max(1.0, abs(sv))):
                f('scalar-vs-array-CpoR:integer-array', 'CpoR(%r) scalar %r, element of CpoR(integer array %r) = %r' % (float(T), sv, ints, v))
                break
    allbrk = list(brk)
    try:
        sp = obj._correlation.spline if hasattr(obj, '_correlation') else obj.spline
        allbrk += [float(x) for x in sp.get_knots()]
    except Exception:
        pass
    scaleH = TR.integrate_abs(cp, pts[0], pts[-1], allbrk, vec=True) + abs(H_ref * T_ref) + 1.0
    L = {T: TR.integrate_abs(lambda t: cp(t) / t, T_ref, T, allbrk, vec=True) for T in pts}
    Hs = {T: obj.get_HoRT(T) for T in pts}
    Ss = {T: obj.get_SoR(T) for T in pts}
    pairs = [(T_ref, T) for T in pts] + list(zip(pts[:-1], pts[1:])) + [(pts[0], pts[-1])]
    nstraddle = 0
    for (T1, T2) in pairs:
        if T1 == T2:
            continue
        lo_, hi_ = min(T1, T2), max(T1, T2)
        nstraddle += any(lo_ < b < hi_ for b in brk)
        iH = TR.integrate(cp, T1, T2, allbrk, vec=True)
        dH = T2 * Hs[T2] - T1 * Hs[T1]
        if not close(dH, iH, 1e-9 * scaleH):
            where = _where(T1, T2, Ts, T_ref)
            f('H-integral:%s' % where, 'T2*HoRT(T2)-T1*HoRT(T1) = %r but integral of CpoR over [%r,%r] = %r (tol %.3g)'
              % (dH, T1, T2, iH, 1e-9 * scaleH))
            break
    for (T1, T2) in pairs:
        if T1 == T2:
            continue
        iS = TR.integrate(lambda t: cp(t) / t, T1, T2, allbrk, vec=True)
        dS = Ss[T2] - Ss[T1]
        tol = 1e-4 * (L[T1] + L[T2]) + 1e-7
        if not close(dS, iS, tol):
            where = _where(T1, T2, Ts, T_ref)
            f('S-integral:%s' % where, 'SoR(T2)-SoR(T1) = %r but integral of CpoR/T over [%r,%r] = %r (tol %.3g)'
              % (dS, T1, T2, iS, tol))
            break
    # (e) G = H - S
    for T in pts:
        g = obj.get_GoRT(T)
        if not close(g, Hs[T] - Ss[T], 1e-12 * max(1.0, abs(Hs[T]), abs(Ss[T]))):
            f('G-not-H-minus-S', 'GoRT(%r) = %r, HoRT-SoR = %r' % (T, g, Hs[T] - Ss[T]))
            break
    for T in pts:
        for v in (Hs[T], Ss[T]):
            if not (isinstance(v, (float, int, np.floating)) and math.isfinite(v)):
                f('non-finite', 'value %r at T=%r' % (v, T))
                return fails, nstraddle, Hs, Ss
    return fails, nstraddle, Hs, Ss


def _where(T1, T2, Ts, T_ref):
    """which region the failing pair touches: root-cause oriented label"""
    lo, hi = min(T1, T2), max(T1, T2)
    reg = []
    if lo < Ts[0]:
        reg.append('below-table')
    if hi > Ts[-1]:
        reg.append('above-table')
    if hi > Ts[0] and lo < Ts[-1]:
        reg.append('inside')
    ref = 'Tref-below' if T_ref < Ts[0] else ('Tref-above' if T_ref > Ts[-1] else
                                              ('Tref-at-first' if T_ref == Ts[0] else
                                               ('Tref-at-last' if T_ref == Ts[-1] else 'Tref-inside')))
    return '%s:%s:N%s' % ('+'.join(reg), ref, '1' if len(Ts) == 1 else '>1')


def yaml_text(case, order):
    lines = ['!ThermochemGroup', 'T_ref: %r K' % case['T_ref'], 'ND_H_ref: %r' % case['H_ref'],
             'ND_S_ref: %r' % case['S_ref'], 'range: [%r K, %r K]' % (case['range'][0], case['range'][1]),
             'ND_Cp_data:']
    for i in order:
        lines.append('    - [%r K, %r]' % (case['Ts'][i], case['Cps'][i]))
    return '\n'.join(lines)


def yaml_raw_text(case, order):
    """the same table as a !ThermochemRawData document; the range is left out when it is the table span (the documented default)"""
    lines = ['!ThermochemRawData', 'T_ref: %r K' % case['T_ref'], 'ND_H_ref: %r' % case['H_ref'], 'ND_S_ref: %r' % case['S_ref']]
    if not (case['range'][0] == min(case['Ts']) and case['range'][1] == max(case['Ts'])):
        lines.append('range: [%r K, %r K]' % (case['range'][0], case['range'][1]))
    lines.append('ND_Cp_data:')
    for i in order:
        lines.append('    - [%r K, %r]' % (case['Ts'][i], case['Cps'][i]))
    return '\n'.join(lines)


def check_table(ctx, case):
    m = _pg()
    Ts, Cps, T_ref, H, S, rng, order = (case['Ts'], case['Cps'], case['T_ref'], case['H_ref'], case['S_ref'],
                                        tuple(case['range']), case['order'])
    n = len(Ts)
    pts, brk = eval_points(case)
    pTs = [Ts[i] for i in order]
    pCps = [Cps[i] for i in order]
    is_sorted = (order == sorted(order))
    objs = {}
    builders = {
        'raw': lambda: m['Raw'](H, S, pTs, pCps, T_ref, rng),
        'group': lambda: m['Group'](H, S, dict(zip(pTs, pCps)), T_ref, rng),
        'yaml': lambda: m['yaml_io'].load(m['yaml_io'].parse(yaml_text(case, order))),
        'yamlraw': lambda: m['yaml_io'].load(m['yaml_io'].parse(yaml_raw_text(case, order))),
    }
    ctx.event('raw-yaml:%s' % ('range-left-out' if 'range:' not in yaml_raw_text(case, order) else 'range-given'))
    if not is_sorted:
        builders['raw-sorted'] = lambda: m['Raw'](H, S, Ts, Cps, T_ref, rng)
    for name, b in builders.items():
        try:
            objs[name] = b()
        except Exception as e:
            ctx.fail('construction:%s:%s:N=%s' % (name.split('-')[0], type(e).__name__, min(n, 5)),
                     '%s construction of a valid table raised %s: %s' % (name, type(e).__name__, e))
    cell = case.get('cell') or ['?', '?']
    allres = {}
    total_straddle = 0
    for name, obj in objs.items():
        try:
            fails, ns, Hs, Ss = check_object(ctx, obj, case, name + ('' if is_sorted else ':permuted'), brk, pts, H, S,
                                             T_ref, (Ts, Cps))
            allres[name] = (Hs, Ss, {T: obj.get_CpoR(T) for T in pts})
        except Exception as e:
            import traceback
            tb = traceback.extract_tb(e.__traceback__)
            inner = [fr for fr in tb if '/pgradd/' in fr.filename]
            if not inner:
                raise
            ctx.fail('evaluation-raises:%s:%s:%s' % (type(e).__name__, inner[-1].name, name.split('-')[0]),
                     '[%s] in-range evaluation raised %s: %s (at %s:%d)' % (name, type(e).__name__, e,
                                                                          inner[-1].filename.split('/pgradd/')[-1], inner[-1].lineno))
            continue
        total_straddle += ns
    # (f) constructions and supply orders agree
    names = sorted(allres)
    for a in names[1:]:
        for k, what in enumerate(('HoRT', 'SoR', 'CpoR')):
            for T in pts:
                x, y = allres[names[0]][k][T], allres[a][k][T]
                if not close(x, y, 1e-12 * max(1.0, abs(x), abs(y))):
                    ctx.fail('constructions-disagree:%s-vs-%s%s' % (names[0], a.split('-')[0], '' if is_sorted else ':permuted'),
                             '%s(%r): %s gives %r, %s gives %r' % (what, T, names[0], x, a, y))
                    break
            else:
                continue
            break
    # (g) a merge that is REFUSED (conflicting reference value, overwrite not allowed) leaves the correlation exactly as it was:
    # same data, and the data still reproduced by the evaluation
    from vlib import thermogen as TG
    for name in ('group', 'yaml'):
        obj = objs.get(name)
        if obj is None or name not in allres:
            continue
        status, before, after = TG.refused_update(obj, dict(H=H, S=S, Ts=list(Ts), Cps=list(Cps), T_ref=T_ref, range=list(rng)))
        ctx.count()
        ctx.event('refused-update:%s' % status)
        if status != 'refused':
            ctx.fail('conflicting-update-not-refused:%s' % status, '[%s] update with a conflicting H_ref (no overwrite): %s' % (name, status))
            continue
        if before != after:
            ctx.fail('refused-update-changed-the-data', '[%s] data before %s, after the refused update %s' % (name, before, after))
            continue
        # a copy is a correlation of its own: new reference values for the copy (same table, same range) leave the original's answers
        try:
            twin = obj.copy()
            twin.update(m['Group'](H + 3.5, S - 1.25, {}, T_ref, None), overwrite=True)
            ctx.count()
            ctx.event('copy-revised')
            if not (close(twin.get_HoRT(T_ref), H + 3.5, 1e-9 * max(1.0, abs(H) + 3.5)) and close(obj.get_HoRT(T_ref), H, 1e-12 * max(1.0, abs(H)))
                    and close(obj.get_SoR(T_ref), S, 1e-12 * max(1.0, abs(S)))):
                ctx.fail('original-changed-through-its-copy', '[%s] copy given H_ref+3.5, S_ref-1.25: copy HoRT(T_ref)=%r, original HoRT(T_ref)=%r (H_ref %r), SoR(T_ref)=%r (S_ref %r)'
                         % (name, twin.get_HoRT(T_ref), obj.get_HoRT(T_ref), H, obj.get_SoR(T_ref), S))
                continue
        except Exception as e:
            ctx.fail('copy-update-raises:%s' % type(e).__name__, '[%s] copy().update(new reference values, overwrite=True) raised %s: %s' % (name, type(e).__name__, e))
            continue
        bad = [(T, cp, obj.get_CpoR(T)) for T, cp in sorted(obj.ND_Cp_data.items()) if not close(obj.get_CpoR(T), cp, 1e-9 * max(1.0, abs(cp)))]
        if bad or not close(obj.get_HoRT(T_ref), H, 1e-12 * max(1.0, abs(H))) or any(
                not close(obj.get_CpoR(T), allres[name][2][T], 1e-12 * max(1.0, abs(allres[name][2][T]))) for T in pts):
            ctx.fail('refused-update-changed-the-correlation', '[%s] after a refused update: tabulated points not reproduced %s, HoRT(T_ref)=%r (H_ref %r)'
                     % (name, bad[:3], obj.get_HoRT(T_ref), H))
    # (h) the same correlation put together in two steps - some of the points first (at another reference temperature), then the
    # rest with the reference values merged in - and (i) with an extra point that is deleted again: both are the correlation above
    if 'group' in allres:
        ref_vals = allres['group']
        ref_obj = objs['group']
        variants = {}
        try:
            if n >= 2:
                half = n // 2
                other_Tref = Ts[0] if Ts[0] != T_ref else Ts[-1]
                recv = m['Group'](None, None, dict(zip(Ts[:half], Cps[:half])), other_Tref, rng)
                donor = m['Group'](H, S, dict(zip(Ts[half:], Cps[half:])), T_ref, rng)
                recv.update(donor)
                variants['assembled-by-update'] = recv
            extra_T = None
            if rng[1] > Ts[-1]:
                extra_T = 0.5 * (Ts[-1] + rng[1])
            elif n >= 2:
                extra_T = 0.5 * (Ts[0] + Ts[1]) if 0.5 * (Ts[0] + Ts[1]) not in Ts else None
            if extra_T is not None and extra_T not in Ts:
                tmp = m['Group'](H, S, dict(list(zip(Ts, Cps)) + [(extra_T, 7.5)]), T_ref, rng)
                tmp.del_ND_Cp(extra_T)
                variants['extra-point-deleted'] = tmp
        except Exception as e:
            ctx.fail('assembly-raises:%s' % type(e).__name__, 'two-step construction of a valid table raised %s: %s' % (type(e).__name__, e))
            variants = {}
        for vname, vobj in variants.items():
            ctx.count()
            ctx.event('variant:%s' % vname)
            try:
                for k, fn in enumerate((vobj.get_HoRT, vobj.get_SoR, vobj.get_CpoR)):
                    for T in pts:
                        x, y = ref_vals[k][T], fn(T)
                        # (the reference values travel through another reference temperature: large integrals of the table cancel,
                        # so the yardstick is the largest value the property takes anywhere on the grid, incl. that temperature)
                        big = max([abs(ref_vals[k][t]) for t in pts] + [abs(fn(Ts[0])), abs(fn(Ts[-1])), 1.0])
                        tolv = 1e-8 * big
                        if k == 1:
                            # S/R comes from numerical quadrature of Cp/(RT) (scipy quad): two routes integrate over different
                            # intervals; same allowance as the integral clause (c)
                            # (yardstick: the largest |Cp/R| the fitted spline takes between the points, which for unevenly
                            # spaced tables is far above the tabulated values)
                            grid = np.linspace(min(pts[0], Ts[0]), max(pts[-1], Ts[-1]), 600)
                            peak = max(float(np.max(np.abs(ref_obj.get_CpoR(grid)))), max(abs(c) for c in Cps))
                            tolv = 1e-4 * peak * 3.0 * math.log(max(pts[-1], Ts[-1]) / min(pts[0], Ts[0])) + 1e-7
                        if not close(x, y, tolv):
                            ctx.fail('constructions-disagree:%s' % vname, '%s(%r): built at once %r, %s %r' % (('HoRT', 'SoR', 'CpoR')[k], T, x, vname, y))
                            raise StopIteration
            except StopIteration:
                pass
            except Exception as e:
                ctx.fail('evaluation-raises:%s:%s' % (type(e).__name__, vname), '[%s] in-range evaluation raised %s: %s' % (vname, type(e).__name__, e))
    tref_out = not (Ts[0] < T_ref < Ts[-1])
    nontriv = n >= 2 and (total_straddle > 0 or tref_out or not is_sorted)
    ctx.case(nontrivial=nontriv, key=[Ts, Cps, T_ref, H, S, list(rng), order], evals=len(objs) * len(pts),
             sample=dict(Ts=Ts, Cps=Cps, T_ref=T_ref, H_ref=H, S_ref=S, range=list(rng), order=order, points=len(pts)))
    ctx.event('cell:N=%s:%s:%s' % (cell[0], cell[1], 'sorted' if is_sorted else 'permuted'))
    ctx.event('pairs-straddling-a-break', total_straddle)


# -- shipped groups ----------------------------------------------------------------
from vlib.shipped import LIBS, lib, group_names


def enum_shipped(tier):
    for L in LIBS:
        for k in group_names(L):
            yield dict(kind='shipped', lib=L, group=k)


def rng_lo(g, Ts):
    r = g.get_range()
    return r[0] if r is not None else Ts[0]


def rng_hi(g, Ts):
    r = g.get_range()
    return r[1] if r is not None else Ts[-1]


def check_shipped(ctx, case):
    m = _pg()
    L = lib(case['lib'])
    ps = L[case['group']]
    if 'thermochem' not in ps:
        ctx.event('shipped:no-thermochem')
        return
    g = ps['thermochem']
    if not g.has_ND_Cp():
        ctx.event('shipped:no-Cp-data')
        return
    Ts = sorted(g.ND_Cp_data)
    Cps = [g.ND_Cp_data[T] for T in Ts]
    if not all(isinstance(c, (int, float, np.floating)) for c in Cps + [g.T_ref]):
        ctx.event('shipped:non-numeric-data(C14)')
        return
    # the table as WRITTEN in the data files (read with plain YAML, not by the library loader): every row of it is a
    # tabulated point the correlation must reproduce, and no temperature is listed twice
    from vlib import shipped as SH
    raw = SH.raw_cp_tables(case['lib']).get(case['group'])
    if raw:
        ctx.event('shipped:table-read-from-file')
        for fn, T in raw['duplicates']:
            ctx.fail('shipped-table-lists-a-temperature-twice', '[%s/%s] %s lists T=%r twice in one Cp table: the loader keeps one row, the other tabulated point is lost'
                     % (case['lib'], case['group'], fn, T))
        if len({r[0] for r in raw['rows']}) != len(Ts):
            ctx.fail('shipped-table-size', '[%s/%s] files %s hold %d distinct temperatures, the loaded group %d'
                     % (case['lib'], case['group'], raw['files'], len({r[0] for r in raw['rows']}), len(Ts)))
        for T, v, u in raw['rows']:
            if u is None or not (rng_lo(g, Ts) <= T <= rng_hi(g, Ts)):
                continue
            ctx.count()
            got = g.get_CpoR(T) if u == 'nd' else g.get_Cp(T, u)
            if not close(got, v, 2e-5 * max(1e-3, abs(v))):
                ctx.fail('shipped-file-row-not-reproduced', '[%s/%s] the file says Cp(%r K) = %r %s, the loaded correlation gives %r'
                         % (case['lib'], case['group'], T, v, '' if u == 'nd' else u, got))
                break
    rng = g.get_range() or (Ts[0], Ts[-1])
    H = g.ND_H_ref if g.ND_H_ref is not None else 0.0
    S = g.ND_S_ref if g.ND_S_ref is not None else 0.0
    if not all(isinstance(c, (int, float, np.floating)) for c in (H, S)):
        ctx.event('shipped:non-numeric-data(C14)')
        return
    fake = dict(Ts=[float(t) for t in Ts], T_ref=float(g.T_ref), range=[float(rng[0]), float(rng[1])])
    pts, brk = eval_points(fake)
    # a group may lack H or S: evaluate through the underlying complete correlation, which is what Estimate sums
    obj = getattr(g, '_correlation', None)
    if obj is None:
        if g.ND_H_ref is None or g.ND_S_ref is None:
            ctx.event('shipped:incomplete-group-without-inner-correlation(skipped)')
            return
        obj = g
    try:
        check_object(ctx, obj, fake, 'shipped %s/%s' % (case['lib'], case['group']), brk, pts,
                     float(H), float(S), float(g.T_ref), ([float(t) for t in Ts], [float(c) for c in Cps]))
    except Exception as e:
        import traceback
        inner = [fr for fr in traceback.extract_tb(e.__traceback__) if '/pgradd/' in fr.filename]
        if not inner:
            raise
        ctx.fail('evaluation-raises:%s:%s:shipped' % (type(e).__name__, inner[-1].name),
                 'shipped %s/%s: in-range evaluation raised %s: %s' % (case['lib'], case['group'], type(e).__name__, e))
    ctx.case(nontrivial=len(Ts) >= 2, key=['shipped', case['lib'], case['group']], evals=len(pts),
             sample=dict(lib=case['lib'], group=case['group'], n=len(Ts), T_ref=float(g.T_ref), range=list(map(float, rng))))
    ctx.event('shipped:%s' % case['lib'])


def check_any(ctx, case):
    if case['kind'] == 'shipped':
        return check_shipped(ctx, case)
    return check_table(ctx, case)


FAMILIES = [
    Family('tables', check_any, strategy=lambda tier: table_case(), n=(2400, 60000)),
    Family('shipped', check_any, enumerate=enum_shipped),
]
