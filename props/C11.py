"""C11 - Incompatible quantities never combine; compatible ones act as numbers.

Oracle: reference model on (magnitude, exponent vector).  Operands are built from
SI-coherent unit strings so that the SI magnitude is exactly the generated number.
"""
import itertools
import math
import operator

import numpy as np
from hypothesis import strategies as st

from vlib.core import Family

PROPERTY = 'C11'
RULE = ('exhaustive over ordered pairs of operand classes {7 base dimensions, 8 derived dimensions, plain non-zero '
        'number, bare zero} x operations {+,-,<,<=,>,>=,==,!=,in_units,*,/} (number-on-the-left forms included) x a fixed '
        'pool of magnitude pairs (equal, unequal, negative, zero-valued); unary -,abs and ** with integer, negative and '
        'fractional exponents; Hypothesis: random magnitudes, scalar and array quantities (1-4 elements), plain lists/arrays as '
        'dimensionless operands, and chains of * / ** with decimal exponents that cancel only up to round-off. Non-trivial = '
        'the operands have different dimensions, or equal dimensions with unequal magnitudes, or an array operand. '
        'Distinct = distinct (operation, operand classes, magnitudes).')
ASSUMPTIONS = ['magnitudes are Python int/float or float arrays (numpy integer scalars are not a documented operand type)',
               'division by a zero magnitude, zero to a negative power and negative magnitudes to fractional powers are '
               'outside the domain',
               'when both operands are plain numbers nothing of pgradd is exercised; such pairs are skipped']

DIMS = [  # name, unit string (SI-coherent: factor exactly 1), exponents m kg s A K mol cd
    ('length', 'm', (1, 0, 0, 0, 0, 0, 0)), ('mass', 'kg', (0, 1, 0, 0, 0, 0, 0)), ('time', 's', (0, 0, 1, 0, 0, 0, 0)),
    ('current', 'A', (0, 0, 0, 1, 0, 0, 0)), ('temperature', 'K', (0, 0, 0, 0, 1, 0, 0)),
    ('amount', 'mol', (0, 0, 0, 0, 0, 1, 0)), ('luminosity', 'cd', (0, 0, 0, 0, 0, 0, 1)),
    ('force', 'N', (1, 1, -2, 0, 0, 0, 0)), ('energy', 'J', (2, 1, -2, 0, 0, 0, 0)),
    ('pressure', 'Pa', (-1, 1, -2, 0, 0, 0, 0)), ('power', 'W', (2, 1, -3, 0, 0, 0, 0)),
    ('velocity', 'm/s', (1, 0, -1, 0, 0, 0, 0)), ('area', 'm^2', (2, 0, 0, 0, 0, 0, 0)),
    ('frequency', '1/s', (0, 0, -1, 0, 0, 0, 0)), ('molar-entropy', 'J/(mol K)', (2, 1, -2, 0, -1, -1, 0)),
]
DIMIDX = {d[0]: d for d in DIMS}
CLASSES = [d[0] for d in DIMS] + ['number', 'zero']
BINOPS = ['+', '-', '<', '<=', '>', '>=', '==', '!=', 'in_units', '*', '/']
PYOP = {'+': operator.add, '-': operator.sub, '<': operator.lt, '<=': operator.le, '>': operator.gt,
        '>=': operator.ge, '==': operator.eq, '!=': operator.ne, '*': operator.mul, '/': operator.truediv}
MAGPAIRS = [(2.5, 2.5), (-3, 7), (7.25, -3), (0, 4.0), (4, 0.0), (0.0, 0), (1e-3, 1e3)]
ZERO7 = (0,) * 7

_m = {}


def _pg():
    if not _m:
        from pgradd.Units import eval_qty, Quantity, ArrayQuantity
        from pgradd.Units.qty import GenericQuantity
        from pgradd.Error import UnitsError
        _m.update(eval_qty=eval_qty, Quantity=Quantity, ArrayQuantity=ArrayQuantity, UnitsError=UnitsError,
                  GenericQuantity=GenericQuantity, units={d[0]: eval_qty(d[1]) for d in DIMS})
        # the construction must be SI-coherent, else the model's magnitudes are not the real ones: a unit string that does not
        # evaluate to its SI definition is reported as such (once per case) and nothing else is judged in this process
        _m['broken'] = []
        for d in DIMS:
            u = _m['units'][d[0]]
            try:
                ok = u.value == 1.0 and tuple(float(x) for x in u.units.exps) == tuple(float(x) for x in d[2])
            except Exception:
                ok = False
            if not ok:
                _m['broken'].append((d[1], d[2], repr(u)))
    return _m


def operands_unusable(ctx):
    m = _pg()
    for text, dim, got in m['broken']:
        ctx.fail('operand-unit-string-evaluates-wrongly:%s' % text, 'eval_qty(%r) = %s, its SI definition is 1 with exponents %s' % (text, got, list(dim)))
    return bool(m['broken'])


def build(spec):
    """spec = {'cls': class name, 'mag': number | [numbers]} -> (real operand, model (mag, dim, isq))"""
    m = _pg()
    cls, mag = spec['cls'], spec['mag']
    if cls in ('number', 'zero'):
        if isinstance(mag, list):
            # a plain list / ndarray: a dimensionless operand that is not a bare zero
            real = np.array(mag, dtype=float) if spec.get('as') == 'ndarray' else (tuple(mag) if spec.get('as') == 'tuple' else list(mag))
            return real, (np.array(mag, dtype=float), ZERO7, False)
        return mag, (mag, ZERO7, False)
    u = m['units'][cls]
    if isinstance(mag, list):
        real = np.array(mag, dtype=float) * u     # (the ArrayQuantity constructor mis-handles all-zero data; not an operation of C11)
        return real, (np.array(mag, dtype=float), DIMIDX[cls][2], True)
    real = mag * u
    return real, (mag, DIMIDX[cls][2], True)


def is_bare_zero(model):
    mag, dim, isq = model
    return (not isq) and not isinstance(mag, np.ndarray) and mag == 0


def allzero(mag):
    return bool(np.all(np.asarray(mag) == 0))


def expected(op, A, B):
    """('value', mag, dim) | ('bool', value) | ('error', 'UnitsError') | ('skip', why)"""
    (ma, da, qa), (mb, db, qb) = A, B
    if not qa and not qb:
        return ('skip', 'no quantity involved')
    if op in ('*', '/'):
        if op == '/' and np.any(np.asarray(mb) == 0):
            return ('skip', 'division by zero magnitude')
        dim = tuple(x + y for x, y in zip(da, db)) if op == '*' else tuple(x - y for x, y in zip(da, db))
        return ('value', PYOP[op](ma, mb), dim)
    if op == 'in_units':
        if not qa or not qb:
            return ('skip', 'in_units needs a quantity and a unit')
        if np.any(np.asarray(mb) == 0) or isinstance(mb, np.ndarray):
            return ('skip', 'zero or array unit')
        if da != db:
            return ('error', 'UnitsError')
        return ('value', ma / mb, ZERO7)
    if qa and qb:
        compat = (da == db)
    else:
        compat = is_bare_zero(A) or is_bare_zero(B)
    if op in ('==', '!='):
        if not compat:
            return ('bool', op == '!=')
        return ('bool', PYOP[op](ma, mb))
    if not compat:
        return ('error', 'UnitsError')
    if op in ('+', '-'):
        return ('value', PYOP[op](ma, mb), da if qa else db)
    return ('bool', PYOP[op](ma, mb))


def relation(A, B):
    (ma, da, qa), (mb, db, qb) = A, B
    if qa and qb:
        if da == db:
            return 'same-dimension'
        if allzero(ma) or allzero(mb):
            return 'zero-valued-quantity-of-other-dimension'
        return 'different-dimension'
    other = B if qa else A
    if is_bare_zero(other):
        return 'bare-zero'
    if isinstance(other[0], np.ndarray):
        return 'plain-array-partly-zero' if np.any(other[0] == 0) else 'plain-array'
    return 'plain-number'


def describe(x):
    m = _pg()
    if isinstance(x, m['GenericQuantity']):
        if isinstance(x, np.ndarray):
            return 'ArrayQuantity(%s, %s)' % (np.asarray(x).tolist(), [int(e) if e == int(e) else e for e in x._units.exps])
        return 'Quantity(%r, %s)' % (x.value, [int(e) if e == int(e) else float(e) for e in x.units.exps])
    if isinstance(x, np.ndarray):
        return 'array(%s)' % x.tolist()
    return repr(x)


def unpack(res):
    """-> (kind, value, dims)"""
    m = _pg()
    if isinstance(res, m['Quantity']):
        return 'quantity', res.value, [float(e) for e in res.units.exps]
    if isinstance(res, m['ArrayQuantity']):
        return 'quantity', np.asarray(res), [float(e) for e in res._units.exps]
    return 'plain', res, [0.0] * 7


def same_value(got, want, tol=0.0):
    try:
        g, w = np.asarray(got, dtype=float), np.asarray(want, dtype=float)
    except Exception:
        return False
    if g.shape != w.shape:
        return False
    if tol == 0.0:
        return bool(np.all(g == w))
    return bool(np.all(np.abs(g - w) <= tol * np.maximum(np.abs(w), 1e-300)))


def run_binary(ctx, op, sa, sb):
    m = _pg()
    ra, A = build(sa)
    rb, B = build(sb)
    exp = expected(op, A, B)
    if exp[0] == 'skip':
        ctx.event('skip:' + exp[1])
        return
    rel = relation(A, B)
    arr = isinstance(A[0], np.ndarray) or isinstance(B[0], np.ndarray)
    nontriv = arr or rel != 'same-dimension' or not same_value(A[0], B[0])
    text = '%s %s %s' % (describe(ra), op, describe(rb))
    ctx.case(nontrivial=nontriv, key=[op, sa, sb], sample=dict(expr=text, relation=rel, expected=str(exp[:2])[:80]))
    ctx.event('op:' + op)
    ctx.event('relation:' + rel)
    ctx.event('operands:array' if arr else 'operands:scalar')
    ctx.event('expected:' + exp[0])
    side = 'number-left' if not A[2] else ('number-right' if not B[2] else 'both-quantities')
    tag = '%s:%s:%s%s' % ('order' if op in ('<', '<=', '>', '>=') else op, op, rel, ':array' if arr else '')
    try:
        if op == 'in_units':
            got = ra.in_units(rb)
        else:
            got = PYOP[op](ra, rb)
    except m['UnitsError'] as e:
        if exp[0] != 'error':
            ctx.fail(tag + ':rejects-compatible', '%s raised UnitsError (%s); expected %r [%s]' % (text, e, exp, side))
        return
    except Exception as e:
        ctx.fail(tag + ':raises-' + type(e).__name__, '%s raised %s: %s; expected %r [%s]' % (text, type(e).__name__, e, exp, side))
        return
    if exp[0] == 'error':
        ctx.fail(tag + ':accepted', '%s returned %s; incompatible operands must raise UnitsError [%s]' % (text, describe(got), side))
        return
    kind, val, dims = unpack(got)
    if exp[0] == 'bool':
        want = exp[1]
        ok = (kind == 'plain') and same_value(np.asarray(val, dtype=float) if not isinstance(val, (bool, np.bool_)) else float(val),
                                              np.asarray(want, dtype=float))
        if isinstance(val, m['GenericQuantity']):
            ok = False
        if not ok:
            ctx.fail(tag + ':wrong-result', '%s returned %s; magnitudes give %s [%s]' % (text, describe(got), np.asarray(want).tolist(), side))
        return
    _, wantv, wantd = exp
    if all(x == 0 for x in wantd):
        if kind != 'plain':
            ctx.fail(tag + ':dimensionless-not-plain', '%s returned %s; all exponents cancel, a plain number is expected' % (text, describe(got)))
            return
    elif kind != 'quantity':
        ctx.fail(tag + ':lost-units', '%s returned plain %s; expected dimension %s' % (text, describe(got), wantd))
        return
    if not all(abs(a - b) <= 1e-9 for a, b in zip(dims, wantd)):
        ctx.fail(tag + ':dimension', '%s returned %s; expected exponents %s' % (text, describe(got), list(wantd)))
        return
    if not same_value(val, wantv, 0.0 if op in ('+', '-', '*', '/') else 1e-12):
        ctx.fail(tag + ':magnitude', '%s returned %s; magnitudes give %s' % (text, describe(got), np.asarray(wantv).tolist()))
        return
    # the augmented form (x = a; x += b) gives the same result and leaves the object that `a` names as it was: quantities are
    # values (a second name for the same quantity, or the unit table's own object, must not change)
    if op in ('+', '-', '*', '/') and A[2] and not arr:
        keep, x = ra, ra
        before = (keep.value, [float(e) for e in keep.units.exps])
        try:
            if op == '+':
                x += rb
            elif op == '-':
                x -= rb
            elif op == '*':
                x *= rb
            else:
                x /= rb
        except Exception as e:
            ctx.fail(tag + ':augmented-raises-' + type(e).__name__, 'x = %s; x %s= %s raised %s: %s' % (describe(ra), op, describe(rb), type(e).__name__, e))
            return
        ctx.count()
        k2, v2, d2 = unpack(x)
        after = (keep.value, [float(e) for e in keep.units.exps])
        if after != before:
            ctx.fail('augmented-assignment-changes-the-other-name', 'a = %s; x = a; x %s= %s: a is now %s' % (describe(ra), op, describe(rb), describe(keep)))
        elif k2 != kind or not same_value(v2, wantv, 0.0) or not all(abs(p - q) <= 1e-9 for p, q in zip(d2, wantd)):
            ctx.fail(tag + ':augmented-differs', 'x = %s; x %s= %s gives %s, the plain operation %s' % (describe(ra), op, describe(rb), describe(x), describe(got)))


def run_unary(ctx, op, sa, expo=None):
    m = _pg()
    ra, A = build(sa)
    ma, da, qa = A
    arr = isinstance(ma, np.ndarray)
    if op == '**':
        e = expo
        frac = (e != int(e))
        if (frac and np.any(np.asarray(ma) < 0)) or (e < 0 and np.any(np.asarray(ma) == 0)):
            ctx.event('skip:pow-out-of-domain')
            return
        want = np.asarray(ma, dtype=float) ** e if arr else float(ma) ** e
        wantd = tuple(x * e for x in da)
        text = '%s ** %r' % (describe(ra), e)
        fn = lambda: ra ** e
    elif op == 'neg':
        want, wantd, text, fn = -ma, da, '-%s' % describe(ra), lambda: -ra
    else:
        want, wantd, text, fn = abs(ma), da, 'abs(%s)' % describe(ra), lambda: abs(ra)
    ctx.case(nontrivial=True, key=[op, sa, expo], sample=dict(expr=text))
    ctx.event('op:' + op)
    tag = '%s%s' % (op, ':array' if arr else '')
    try:
        got = fn()
    except Exception as ex:
        ctx.fail(tag + ':raises-' + type(ex).__name__, '%s raised %s: %s' % (text, type(ex).__name__, ex))
        return
    kind, val, dims = unpack(got)
    if all(x == 0 for x in wantd):
        if kind != 'plain':
            ctx.fail(tag + ':dimensionless-not-plain', '%s returned %s' % (text, describe(got)))
            return
    elif kind != 'quantity':
        ctx.fail(tag + ':lost-units', '%s returned plain %s' % (text, describe(got)))
        return
    if not all(abs(a - b) <= 1e-9 for a, b in zip(dims, wantd)):
        ctx.fail(tag + ':dimension', '%s returned %s; expected exponents %s' % (text, describe(got), list(wantd)))
        return
    if not same_value(val, want, 1e-12 if op == '**' else 0.0):
        ctx.fail(tag + ':magnitude', '%s returned %s; magnitudes give %s' % (text, describe(got), np.asarray(want).tolist()))


EXPONENTS = [2, 3, -1, -2, 0, 1, 0.5, 1.5, -0.5, 2.0]


def enum_cases(tier):
    for ca, cb in itertools.product(CLASSES, CLASSES):
        if ca in ('number', 'zero') and cb in ('number', 'zero'):
            continue
        for op in BINOPS:
            for (x, y) in MAGPAIRS:
                xa = 0 if ca == 'zero' else (x if ca != 'number' or x != 0 else 1.5)
                yb = 0 if cb == 'zero' else (y if cb != 'number' or y != 0 else -2)
                if ca == 'zero' and isinstance(x, float):
                    xa = 0.0
                if cb == 'zero' and isinstance(y, float):
                    yb = 0.0
                yield dict(kind='binary', op=op, a=dict(cls=ca, mag=xa), b=dict(cls=cb, mag=yb))
    for c in CLASSES[:-2]:
        for mag in (2.5, -3, 0, 0.0, 1e-3):
            yield dict(kind='unary', op='neg', a=dict(cls=c, mag=mag))
            yield dict(kind='unary', op='abs', a=dict(cls=c, mag=mag))
            for e in EXPONENTS:
                yield dict(kind='unary', op='**', a=dict(cls=c, mag=mag), e=e)


CHAIN_EXPS = ['0.1', '0.2', '0.3', '0.5', '1.5', '2', '3', '-1', '0.25', '0.7', '-0.4', '1', '0.6', '-2', '1.1']


@st.composite
def chain_case(draw):
    cls = draw(st.sampled_from([d[0] for d in DIMS]))
    mag = draw(st.one_of(st.integers(1, 20), st.floats(0.1, 50, allow_nan=False)))
    steps = [[draw(st.sampled_from(['*', '/'])), draw(st.sampled_from(CHAIN_EXPS))] for _ in range(draw(st.integers(2, 5)))]
    steps[0][0] = '*'
    return dict(kind='chain', a=dict(cls=cls, mag=mag), steps=steps, cancel=draw(st.integers(0, 2)) > 0,
                array=draw(st.integers(0, 4)) == 0)


def run_chain(ctx, case):
    from fractions import Fraction as Fr
    spec = dict(case['a'])
    if case.get('array'):
        spec['mag'] = [float(spec['mag']), float(spec['mag']) * 2]
    ra, (ma, da, _) = build(spec)
    total = Fr(0)
    acc = None
    text = []
    for op, e in case['steps']:
        f = ra ** float(e)
        total += Fr(e) if op == '*' else -Fr(e)
        acc = f if acc is None else (acc * f if op == '*' else acc / f)
        text.append('%s q^%s' % (op, e))
    if case['cancel'] and total != 0:
        # divide by q^total written as ONE power: the sum of the steps cancels only up to floating-point round-off
        acc = acc / (ra ** float(total))
        text.append('/ q^%s' % float(total))
        total = Fr(0)
    wantd = tuple(Fr(x) * total for x in da)
    want = np.asarray(ma, dtype=float) ** float(total)
    desc = 'q=%s: %s' % (describe(ra), ' '.join(text))
    ctx.case(nontrivial=True, key=['chain', case['a'], case['steps'], case['cancel'], case.get('array')],
             sample=dict(expr=desc, net_exponent=str(total)))
    ctx.event('op:chain')
    ctx.event('chain:cancels' if total == 0 else 'chain:net-exponent')
    kind, val, dims = unpack(acc)
    if all(x == 0 for x in wantd):
        if kind != 'plain':
            ctx.fail('chain:dimensionless-not-plain', '%s -> %s; the exponents cancel, a plain number is expected' % (desc, describe(acc)))
            return
    elif kind != 'quantity':
        ctx.fail('chain:lost-units', '%s -> plain %s' % (desc, describe(acc)))
        return
    if not all(abs(a - float(b)) <= 1e-9 for a, b in zip(dims, wantd)):
        ctx.fail('chain:dimension', '%s -> %s; expected exponents %s' % (desc, describe(acc), [str(x) for x in wantd]))
        return
    if not same_value(val, want, 1e-9):
        ctx.fail('chain:magnitude', '%s -> %s; magnitudes give %s' % (desc, describe(acc), np.asarray(want).tolist()))
        return
    # a dimensionless result must act as a number; a dimensioned one must still convert
    try:
        if kind == 'plain':
            acc + 1.0
        else:
            u = _pg()['units'][case['a']['cls']] ** float(total)
            r = acc.in_units(u)
            if not same_value(r, want, 1e-9):
                ctx.fail('chain:in_units', '%s in_units(q-unit^%s) -> %r' % (desc, float(total), r))
    except Exception as e:
        ctx.fail('chain:result-unusable:%s' % type(e).__name__, '%s: %s: %s' % (desc, type(e).__name__, e))


# the same dimension reached by different constructions (division, negative powers, unit strings) must be the SAME dimension
CONSTRUCTIONS = {
    'velocity': ['m/s', 'm s^-1', 'm*s^(-1)', '(s/m)^-1', '(s m^-1)^-1', 'm^2/(m s)', '@inv:m/s', '@sqrt2:m/s'],
    'frequency': ['1/s', 's^-1', '(s)^(-1)', 'm/(m s)', '(s^2)^-0.5', '@inv:1/s'],
    'molar-entropy': ['J/(mol K)', 'J mol^-1 K^-1', 'J/mol/K', '(mol K/J)^-1', 'J (mol K)^-1', '@inv:J/(mol K)'],
    'pressure': ['Pa', 'N/m^2', 'N m^-2', 'J m^-3', '(m^2/N)^-1', '@inv:Pa'],
    'area': ['m^2', 'm*m', '(m^-2)^-1', '(m^4)^0.5', 'm^3/m', '@inv:m^2', '@sqrt2:m^2'],
}


def enum_constructions(tier):
    for cls, forms in CONSTRUCTIONS.items():
        for a in forms:
            for b in forms:
                for op in ('==', '!=', '+', '-', '<', '>=', 'has_units', 'in_units'):
                    yield dict(kind='construction', cls=cls, a=a, b=b, op=op, x=2.5, y=-4.0)


def _construct(m, form, x):
    if form.startswith('@inv:'):
        # the quantity as the LAST step of a negative power: (1/x of the inverse unit) ** -1
        return ((1.0 / x) * m['eval_qty']('1/(%s)' % form[5:])) ** -1
    if form.startswith('@sqrt2:'):
        return (abs(x) ** 0.5 * m['eval_qty']('(%s)^0.5' % form[7:])) ** 2 * (1 if x > 0 else -1)
    return x * m['eval_qty'](form)


def run_construction(ctx, case):
    m = _pg()
    A = _construct(m, case['a'], case['x'])
    B = _construct(m, case['b'], case['y'])
    op = case['op']
    text = '%r*(%s) %s %r*(%s)' % (case['x'], case['a'], op, case['y'], case['b'])
    ctx.case(nontrivial=case['a'] != case['b'], key=[case['a'], case['b'], op], sample=dict(expr=text))
    ctx.event('op:construction:%s' % op)
    try:
        if op == 'has_units':
            got, want = A.has_units(B), True
        elif op == 'in_units':
            got, want = A.in_units(B), case['x'] / case['y']
        else:
            got = PYOP[op](A, B)
            want = PYOP[op](case['x'], case['y'])
    except Exception as e:
        ctx.fail('construction:%s:raises-%s' % (op, type(e).__name__), '%s raised %s: %s (the two operands have the same dimension)' % (text, type(e).__name__, e))
        return
    kind, val, dims = unpack(got) if op in ('+', '-') else ('plain', got, None)
    ok = same_value(float(val) if not isinstance(val, np.ndarray) else val, float(want), 1e-9) if op not in ('==', '!=', '<', '>=', 'has_units') else (bool(val) == bool(want))
    if not ok:
        ctx.fail('construction:%s:wrong-result' % op, '%s returned %s; same-dimension operands give %r' % (text, describe(got), want))


def check_any(ctx, case):
    if operands_unusable(ctx):
        ctx.case(nontrivial=True, key=['unusable', str(case)[:80]], sample=dict(note='operand construction broken'))
        return
    if case['kind'] == 'lookalike':
        return check_lookalike(ctx, case)
    if case['kind'] == 'construction':
        return run_construction(ctx, case)
    if case['kind'] == 'chain':
        return run_chain(ctx, case)
    if case['kind'] == 'binary':
        run_binary(ctx, case['op'], case['a'], case['b'])
    else:
        run_unary(ctx, case['op'], case['a'], case.get('e'))


# -- random magnitudes, arrays ------------------------------------------------
def mags():
    return st.one_of(st.integers(-50, 50), st.floats(1e-6, 1e6, allow_nan=False), st.floats(-1e6, -1e-6, allow_nan=False),
                     st.sampled_from([0, 0.0, 1, -1, 1e-9, 2.5]))


@st.composite
def operand(draw, allow_array=True, force_dim=None):
    cls = force_dim or draw(st.sampled_from(CLASSES + [d[0] for d in DIMS[:4]]))
    if cls == 'zero':
        return dict(cls=cls, mag=draw(st.sampled_from([0, 0.0])))
    if cls == 'number':
        if allow_array and draw(st.integers(0, 1)) == 0:
            # plain sequences are unpacked by the library as dimensionless arrays; all-zero ones are left out
            # (whether [0, 0] counts as "a bare zero" is not stated)
            n = draw(st.integers(1, 4))
            vals = [float(draw(mags())) for _ in range(n)]
            if all(v == 0 for v in vals):
                vals[0] = 3.0
            form = draw(st.sampled_from([None, 'ndarray', 'tuple']))
            return dict(cls=cls, mag=vals, **({'as': form} if form else {}))
        return dict(cls=cls, mag=draw(mags().filter(lambda v: v != 0)))
    if allow_array and draw(st.integers(0, 3)) == 0:
        n = draw(st.integers(1, 4))
        return dict(cls=cls, mag=[float(draw(mags())) for _ in range(n)])
    return dict(cls=cls, mag=draw(mags()))


@st.composite
def random_case(draw):
    if draw(st.integers(0, 5)) == 0:
        a = draw(operand().filter(lambda s: s['cls'] not in ('number', 'zero')))
        op = draw(st.sampled_from(['neg', 'abs', '**']))
        return dict(kind='unary', op=op, a=a, e=draw(st.sampled_from(EXPONENTS)) if op == '**' else None)
    a = draw(operand())
    same = draw(st.integers(0, 2)) == 0
    b = draw(operand(force_dim=a['cls'] if same and a['cls'] not in ('number', 'zero') else None))
    if isinstance(a['mag'], list) and isinstance(b['mag'], list) and len(a['mag']) != len(b['mag']):
        b['mag'] = (b['mag'] * 4)[:len(a['mag'])]
    if same and draw(st.booleans()) and not isinstance(a['mag'], list) and not isinstance(b['mag'], list) \
            and b['cls'] == a['cls']:
        b['mag'] = a['mag']
    op = draw(st.sampled_from(BINOPS))
    if isinstance(a['mag'], list) and a['cls'] == 'number':
        a, b = b, a
    if isinstance(a['mag'], list) and a['cls'] == 'number':
        a = dict(cls='length', mag=2.0)
    if isinstance(b['mag'], list) and b['cls'] == 'number' and isinstance(a['mag'], list) and len(a['mag']) != len(b['mag']):
        b['mag'] = (b['mag'] * 4)[:len(a['mag'])]
    for x in (a, b):
        # an all-zero plain sequence is not generated (whether [0, 0] counts as "a bare zero" is not stated); resizing
        # above can produce one
        if x['cls'] == 'number' and isinstance(x['mag'], list) and all(v == 0 for v in x['mag']):
            x['mag'] = [3.0] + list(x['mag'][1:])
    return dict(kind='binary', op=op, a=a, b=b)


# -- look-alike unit strings -------------------------------------------------------------------------------
def enum_lookalikes(tier):
    """'mK' (millikelvin) and 'm K' (metre kelvin): every pair <unit-that-is-also-a-prefix><unit> written with and without the
    blank, where the two readings have different dimensions.  Both orders of first use occur (the order alternates with
    the pair's position; every string is used by one pair only, so each pair meets a process that has seen neither)"""
    from vlib import unitsref as U
    k = 0
    for p in sorted(U.UNITS):
        if p not in U.PREFIXES:
            continue
        for u in sorted(U.UNITS):
            joined, spaced = p + u, p + ' ' + u
            if joined in U.UNITS or not U.is_known(joined):
                continue
            a, b = U.lookup(joined), U.Q(U.UNITS[p].v * U.UNITS[u].v, U.dmul(U.UNITS[p].d, U.UNITS[u].d))
            if tuple(a.d) == tuple(b.d):
                continue
            k += 1
            yield dict(kind='lookalike', joined=joined, spaced=spaced, first='joined' if k % 2 else 'spaced',
                       dj=[float(x) for x in a.d], ds=[float(x) for x in b.d], vj=float(a.v), vs=float(b.v))


def check_lookalike(ctx, case):
    m = _pg()
    order = [case['joined'], case['spaced']] if case['first'] == 'joined' else [case['spaced'], case['joined']]
    got = {}
    for text in order:
        try:
            got[text] = m['eval_qty'](text)
        except Exception as e:
            ctx.fail('lookalike:raises-%s' % type(e).__name__, 'eval_qty(%r) raised %s: %s' % (text, type(e).__name__, e))
            return
    ctx.case(nontrivial=True, key=[case['joined'], case['first']], sample=dict(joined=case['joined'], spaced=case['spaced'], evaluated_first=order[0]))
    ctx.event('lookalike:first=%s' % case['first'])
    for text, dim, val in ((case['joined'], case['dj'], case['vj']), (case['spaced'], case['ds'], case['vs'])):
        q = got[text]
        ex = [float(x) for x in q.units.exps]
        ctx.count()
        if ex != dim or abs(float(q.value) - val) > 1e-12 * abs(val):
            ctx.fail('lookalike:wrong-quantity', 'eval_qty(%r) = %r with exponents %s (evaluated %s in this process, %r %s); its own reading is %r with exponents %s'
                     % (text, q.value, ex, 'first' if text == order[0] else 'second', order[0] if text != order[0] else order[1],
                        'before it' if text != order[0] else 'after it', val, dim))
            return
    A, B = got[case['joined']], got[case['spaced']]
    for name, fn in (('+', lambda: A + B), ('-', lambda: B - A), ('<', lambda: A < B), ('in_units', lambda: A.in_units(case['spaced'])),
                     ('in_units', lambda: B.in_units(case['joined']))):
        ctx.count()
        try:
            r = fn()
        except m['UnitsError']:
            continue
        except Exception as e:
            ctx.fail('lookalike:%s:raises-%s' % (name, type(e).__name__), '%r %s %r raised %s: %s' % (case['joined'], name, case['spaced'], type(e).__name__, e))
            continue
        ctx.fail('lookalike:%s:incompatible-accepted' % name, '%r %s %r = %r although the dimensions differ (%s vs %s)'
                 % (case['joined'], name, case['spaced'], r, case['dj'], case['ds']))
    same = (A == B) or not (A != B)
    try:
        same = same or bool(A.has_units(B)) or bool(A.has_units(case['spaced']))
    except m['UnitsError']:
        pass
    if same:
        ctx.fail('lookalike:==-or-has_units', '%r and %r compare equal / as having the same units' % (case['joined'], case['spaced']))


FAMILIES = [
    Family('exhaustive', check_any, enumerate=enum_cases),
    Family('random', check_any, strategy=lambda tier: random_case(), n=(30000, 500000)),
    Family('chains', check_any, strategy=lambda tier: chain_case(), n=(4000, 150000)),
    Family('constructions', check_any, enumerate=enum_constructions),
    Family('lookalikes', lambda ctx, case: check_lookalike(ctx, case), enumerate=enum_lookalikes),
]
