"""C07 - Dimensional results are the non-dimensional ones times R (and T).

Oracle: algebraic identities against the gas-constant table (pmutt.constants.R, third-party, trusted) and an
independent atom count (molecular formula) for the elemental-entropy clause.
"""
import math
import re
import warnings

from hypothesis import strategies as st

from vlib.core import Family
from vlib import molgen, shipped

PROPERTY = 'C07'
RULE = ('estimates: generated in-vocabulary molecules (gas, aromatic, radical, adsorbate families matched to each of the 9 '
        'shipped libraries) decomposed immediately before Estimate, and single group correlations of every library; x every '
        'unit string of the gas-constant table (16; the enthalpy form drops the trailing /K) x temperatures in range; '
        'H, S, Cp, G identities, ratio between two units, and the elemental clause S/R(T,True) = S/R(T) - sum_Z n_Z S_el[Z] '
        'with n_Z from the molecular formula (hydrogens included). Non-trivial = unit other than J/mol/K, or the elemental '
        'clause on a molecule with >= 2 elements. Distinct = distinct (library, molecule or group, unit, T).')
ASSUMPTIONS = ['pmutt.constants.R and pmutt.constants.S_elements are trusted third-party tables',
               'what an unsupported unit string does is not stated and not asserted',
               'molecules whose descriptors the library has no data for are skipped (counted)',
               'relative tolerance 1e-12']

WEIGHTS = {
    'BensonGA': dict(gas=5, aromatic=2, radical=2, special=1), 'PPY': dict(gas=5, aromatic=2, radical=2, special=1),
    'SalciccioliGA2012': dict(adsorbate=5, gas=2, special=1), 'GRWSurface2018': dict(adsorbate=5, gas=1, special=1),
    'GRWAqueous2018': dict(adsorbate=5, gas=1), 'GuSolventGA2017Aq': dict(adsorbate=5, gas=1),
    'GuSolventGA2017Vac': dict(adsorbate=5, gas=1), 'PtSurface2023': dict(adsorbate=5, gas=1),
    'XieGA2022': dict(adsorbate=5, gas=2),
}
_c = {}


def consts():
    if not _c:
        import pmutt.constants as c
        import inspect
        src = inspect.getsource(c.R)
        keys = re.findall(r"^\s+'([^']+)':\s*[-0-9.e]+", src, re.M)
        units = []
        for k in keys:
            try:
                c.R(k)
                if k.endswith('/K') and k not in units:
                    units.append(k)
            except KeyError:
                pass
        assert len(units) >= 12, units
        _c.update(R=c.R, S_el=c.S_elements, units=units)
    return _c


def quiet(fn, *a, **k):
    with warnings.catch_warnings():
        warnings.simplefilter('ignore')
        return fn(*a, **k)


def close(a, b, tol=1e-12):
    return abs(a - b) <= tol * max(abs(a), abs(b), 1e-300)


def identities(ctx, obj, T, units, label, elemental):
    """H, S, Cp, G identities for one object at one T over the given unit strings"""
    c = consts()
    HoRT, SoR, CpoR = quiet(obj.get_HoRT, T), quiet(obj.get_SoR, T), None
    try:
        CpoR = quiet(obj.get_CpoR, T)
    except Exception:
        pass
    vals = {}
    for u in units:
        hu = u[:-2]                       # energy unit: the table key without the trailing '/K'
        R = c['R'](u)
        ctx.case(nontrivial=(u != 'J/mol/K'), key=[label, u, T], sample=dict(object=label, unit=u, T=T))
        ctx.event('unit:' + u)
        H, S = quiet(obj.get_H, T, hu), quiet(obj.get_S, T, u)
        G = quiet(obj.get_G, T, hu)
        vals[u] = (H, S, G)
        if not close(H, HoRT * T * R):
            ctx.fail('H-not-HoRT*T*R', '[%s] get_H(%r, %r) = %r, HoRT*T*R = %r' % (label, T, hu, H, HoRT * T * R))
        if not close(S, SoR * R):
            ctx.fail('S-not-SoR*R', '[%s] get_S(%r, %r) = %r, SoR*R = %r' % (label, T, u, S, SoR * R))
        if not close(G, H - T * S, 1e-11) and abs(G - (H - T * S)) > 1e-12 * (abs(H) + abs(T * S)):
            ctx.fail('G-not-H-minus-TS', '[%s] get_G(%r, %r) = %r, H - T*S = %r' % (label, T, hu, G, H - T * S))
        if CpoR is not None:
            Cp = quiet(obj.get_Cp, T, u)
            if not close(Cp, CpoR * R):
                ctx.fail('Cp-not-CpoR*R', '[%s] get_Cp(%r, %r) = %r, CpoR*R = %r' % (label, T, u, Cp, CpoR * R))
        if elemental is not None:
            Sf, Gf = quiet(obj.get_S, T, u, S_elements=False), quiet(obj.get_G, T, hu, S_elements=False)
            if Sf != S or Gf != G:
                ctx.fail('elemental-flag-False-changes-the-value', '[%s] get_S(%r, %r) = %r but with S_elements=False %r; get_G %r vs %r'
                         % (label, T, u, S, Sf, G, Gf))
            Se = quiet(obj.get_S, T, u, S_elements=True)
            Ge = quiet(obj.get_G, T, hu, S_elements=True)
            # the flag given by position (third argument) is the same request
            Sp, Gp = quiet(obj.get_S, T, u, True), quiet(obj.get_G, T, hu, True)
            if Sp != Se or Gp != Ge:
                ctx.fail('elemental-flag-by-position-differs', '[%s] get_S(%r, %r, True) = %r but with S_elements=True %r; get_G %r vs %r' % (label, T, u, Sp, Se, Gp, Ge))
            if not close(Se, (SoR - elemental) * R, 1e-11):
                ctx.fail('elemental-S-dimensional', '[%s] get_S(%r, %r, True) = %r, expected %r' % (label, T, u, Se, (SoR - elemental) * R))
            if abs(Ge - (H - T * Se)) > 1e-11 * (abs(H) + abs(T * Se)):
                ctx.fail('elemental-G-dimensional', '[%s] get_G(%r, %r, True) = %r, H - T*S_el = %r' % (label, T, hu, Ge, H - T * Se))
    # the type of the temperature is not part of the question: a whole-number temperature as Python int and as numpy integer
    # (the loop variable of np.arange) gives what the float gives
    Tw = float(round(T))
    if vals and Tw > 0:
        import numpy as np
        u = next(iter(vals))
        try:
            ref = (quiet(obj.get_H, Tw, u[:-2]), quiet(obj.get_S, Tw, u), quiet(obj.get_G, Tw, u[:-2]))
        except Exception:
            ref = None
        if ref is not None:
            for conv in (int, np.int64, np.float64):
                try:
                    alt = (quiet(obj.get_H, conv(Tw), u[:-2]), quiet(obj.get_S, conv(Tw), u), quiet(obj.get_G, conv(Tw), u[:-2]))
                except Exception as e:
                    ctx.fail('temperature-type:%s:raises-%s' % (conv.__name__, type(e).__name__), '[%s] T=%s(%r): %s' % (label, conv.__name__, Tw, e))
                    break
                ctx.count()
                if any(not close(float(a), float(b), 1e-12) and abs(float(a) - float(b)) > 1e-300 for a, b in zip(ref, alt)):
                    ctx.fail('temperature-type:%s' % conv.__name__, '[%s] (H, S, G)(%r, %r) = %r with a float temperature, %r with %s' % (label, Tw, u, ref, alt, conv.__name__))
                    break
    # two units differ exactly by the conversion factor
    us = list(vals)
    for a, b in zip(us[:-1], us[1:]):
        ra = c['R'](a) / c['R'](b)
        for k, nm in enumerate(('H', 'S', 'G')):
            x, y = vals[a][k], vals[b][k]
            if abs(x - ra * y) > 1e-11 * max(abs(x), abs(ra * y), 1e-300):
                ctx.fail('unit-ratio:%s' % nm, '[%s] %s in %s = %r, in %s = %r, ratio of gas constants %r' % (label, nm, a, x, b, y, ra))


def molgen_fused(smi):
    from vlib import molgen
    return molgen.has_fused_aromatic(smi)        # (Mol objects of fused aromatics decompose differently: known finding of C03)


def array_identities(ctx, obj, Ts, units, label):
    """Cp for an ARRAY of temperatures in several units one after the other, the same array object every time, with non-dimensional
    requests in between: every answer is (Cp/R at each temperature) * R(u)"""
    import numpy as np
    c = consts()
    try:
        ref = [quiet(obj.get_CpoR, float(T)) for T in Ts]
    except Exception:
        return
    arr = np.array([float(T) for T in Ts])
    for rep, u in enumerate(list(units) + list(units)[:2]):
        R = c['R'](u)
        try:
            got = quiet(obj.get_Cp, arr, u)
            nd = quiet(obj.get_CpoR, arr)
        except Exception as e:
            ctx.fail('Cp-array-raises:%s' % type(e).__name__, '[%s] get_Cp(array, %r) raised %s: %s' % (label, u, type(e).__name__, str(e)[:120]))
            return
        ctx.count()
        ctx.event('array-temperatures')
        if np.ndim(got) == 0 and all(r == 0 for r in ref):
            return                      # an estimate without constituents: the empty sum is the number 0
        got, nd = np.atleast_1d(got), np.atleast_1d(nd)
        if len(got) != len(ref) or any(not close(float(g), r * R, 1e-11) and abs(float(g) - r * R) > 1e-300 for g, r in zip(got, ref)):
            ctx.fail('Cp-array-not-CpoR*R', '[%s] request %d: get_Cp(%r, %r) = %r, Cp/R*R = %r' % (label, rep + 1, list(arr), u, list(got), [r * R for r in ref]))
            return
        if any(not close(float(g), r, 1e-11) and abs(float(g) - r) > 1e-300 for g, r in zip(nd, ref)):
            ctx.fail('CpoR-array-changed-by-dimensional-request', '[%s] after %d dimensional requests get_CpoR(%r) = %r, scalar requests give %r' % (label, rep + 1, list(arr), list(nd), ref))
            return


def formula_counts(smi):
    from rdkit import Chem
    from rdkit.Chem.rdMolDescriptors import CalcMolFormula
    mol = Chem.MolFromSmiles(smi)
    f = CalcMolFormula(mol)
    f = re.sub(r'[+-]\d*$', '', f)
    out = {}
    pt = Chem.GetPeriodicTable()
    for sym, n in re.findall(r'([A-Z][a-z]?)(\d*)', f):
        out[pt.GetAtomicNumber(sym)] = out.get(pt.GetAtomicNumber(sym), 0) + (int(n) if n else 1)
    return out


@st.composite
def estimate_case(draw):
    L = draw(st.sampled_from(shipped.LIBS))
    smi = draw(molgen.mixed(WEIGHTS[L], metal='Ru' if L == 'XieGA2022' else 'Pt', max_heavy=9))
    units = draw(st.lists(st.sampled_from(consts()['units']), min_size=3, max_size=5, unique=True))
    return dict(kind='estimate', lib=L, smiles=smi, units=units, tf=[draw(st.floats(0, 1)) for _ in range(2)],
                before=draw(st.sampled_from([None, None, 'CC', 'C[Pt]', 'CCO'])))


def check_estimate(ctx, case):
    from pgradd.Error import PatternMatchError, GroupMissingDataError
    c = consts()
    L, smi = case['lib'], case['smiles']
    lib = shipped.lib(L)
    try:
        if case.get('before'):
            try:
                lib.GetDescriptors(case['before'])      # an earlier, different molecule on the same library object
            except Exception:
                pass
        d = lib.GetDescriptors(smi)
        est = lib.Estimate(d, 'thermochem')              # immediately after the decomposition, as the quantifier says
    except PatternMatchError:
        ctx.event('skip:not-decomposable')
        return
    except GroupMissingDataError:
        ctx.event('skip:library-has-no-data')
        return
    rng = est.get_range()
    lo, hi = (rng if rng is not None else (298.15, 1000.0))
    if lo > hi:
        ctx.event('skip:empty-range')
        return
    Ts = [lo + (hi - lo) * f for f in case['tf']]
    try:
        quiet(est.get_HoRT, Ts[0]), quiet(est.get_SoR, Ts[0])
    except Exception:
        ctx.event('skip:incomplete-data')
        return
    counts = formula_counts(smi)
    elemental = None
    if all(z in c['S_el'] for z in counts):
        elemental = math.fsum(n * c['S_el'][z] for z, n in counts.items())
    ctx.event('family:%s' % ('adsorbate' if ('Pt' in smi or 'Ru' in smi) else 'radical' if re.search(r'\[(CH?\d?|O|OH)\]', smi) else 'gas'))
    ctx.event('library:%s' % L)
    label = '%s %s' % (L, smi)
    array_identities(ctx, est, Ts, case['units'], label)
    for T in Ts:
        identities(ctx, est, T, case['units'], label, elemental)
        if elemental is not None:
            S0, S1 = quiet(est.get_SoR, T), quiet(est.get_SoR, T, S_elements=True)
            G0, G1 = quiet(est.get_GoRT, T), quiet(est.get_GoRT, T, S_elements=True)
            ctx.case(nontrivial=len(counts) >= 2, key=[label, 'elemental', T],
                     sample=dict(object=label, formula={str(k): v for k, v in counts.items()}, S_elements_sum=elemental))
            ctx.event('elemental:checked')
            # declining the elemental reference explicitly is the same request as not mentioning it
            for flag in (False, None, 0):
                Sf, Gf = quiet(est.get_SoR, T, S_elements=flag), quiet(est.get_GoRT, T, S_elements=flag)
                if Sf != S0 or Gf != G0:
                    ctx.fail('elemental-flag-%r-changes-the-value' % (flag,), '[%s] SoR(T)=%r, SoR(T, S_elements=%r)=%r; GoRT(T)=%r, GoRT(T, S_elements=%r)=%r'
                             % (label, S0, flag, Sf, G0, flag, Gf))
                    break
            if not close(S0 - S1, elemental, 1e-10):
                ctx.fail('elemental-sum', '[%s] SoR(T) - SoR(T, True) = %r, sum over formula %s of elemental entropies = %r'
                         % (label, S0 - S1, counts, elemental))
            if not close(G1 - G0, elemental, 1e-10) and abs((G1 - G0) - elemental) > 1e-12 * (abs(G0) + abs(G1)):
                ctx.fail('elemental-G', '[%s] GoRT(T, True) - GoRT(T) = %r, expected %r' % (label, G1 - G0, elemental))
        else:
            ctx.event('elemental:element-not-tabulated')
    # the molecule may be given as an RDKit Mol object (the documented parameter type): same descriptors, same elemental reference
    if elemental is not None and Ts and not molgen_fused(smi):
        from rdkit import Chem
        T = Ts[0]
        ref_vals = (quiet(est.get_SoR, T, S_elements=True), quiet(est.get_GoRT, T, S_elements=True))
        for form, mk in (('Mol object', lambda: Chem.MolFromSmiles(smi)), ('Mol object with explicit hydrogens', lambda: Chem.AddHs(Chem.MolFromSmiles(smi)))):
            try:
                e2 = lib.Estimate(quiet(lib.GetDescriptors, mk()), 'thermochem')
                got = (quiet(e2.get_SoR, T, S_elements=True), quiet(e2.get_GoRT, T, S_elements=True))
            except Exception as e:
                ctx.fail('elemental-raises:%s:Mol-input' % type(e).__name__, '[%s] decomposed from a %s, then estimated: S/R relative to the elements raised %s: %s'
                         % (label, form, type(e).__name__, str(e)[:160]))
                break
            ctx.count()
            ctx.event('elemental:mol-object-input')
            if any(abs(a - b) > 1e-10 * max(1.0, abs(a)) for a, b in zip(ref_vals, got)):
                ctx.fail('elemental-sum:Mol-input', '[%s] (SoR, GoRT) relative to the elements from the SMILES %r, from a %s %r' % (label, ref_vals, form, got))
                break
        quiet(lib.GetDescriptors, smi)
    # the estimate belongs to ITS molecule: decomposing another molecule with the same library object afterwards does not
    # change what 'relative to the elements' means for an estimate that already exists
    if elemental is not None and Ts:
        other = 'CC' if formula_counts(smi) != formula_counts('CC') else 'CCO'
        T = Ts[0]
        before = (quiet(est.get_SoR, T, S_elements=True), quiet(est.get_GoRT, T, S_elements=True))
        try:
            quiet(lib.GetDescriptors, other)
        except Exception:
            ctx.event('later-decomposition:other-molecule-not-decomposable')
        else:
            after = (quiet(est.get_SoR, T, S_elements=True), quiet(est.get_GoRT, T, S_elements=True))
            ctx.count()
            ctx.event('later-decomposition:checked')
            if before != after:
                ctx.fail('elemental-reference-follows-a-later-decomposition', '[%s] (SoR, GoRT)(%r, elements) = %r; after the library decomposed %r: %r'
                         % (label, T, before, other, after))
            # leave the library as the following cases expect it: the molecule itself decomposed last
            quiet(lib.GetDescriptors, smi)


def enum_groups(tier):
    for L in shipped.LIBS:
        for k in shipped.group_names(L):
            yield dict(kind='group', lib=L, group=k)


def check_group(ctx, case):
    lib = shipped.lib(case['lib'])
    ps = lib[case['group']]
    if 'thermochem' not in ps:
        return
    g = ps['thermochem']
    if g.ND_H_ref is None or g.ND_S_ref is None:
        ctx.event('skip:group-without-H-or-S')
        return
    rng = g.get_range() or ((min(g.ND_Cp_data), max(g.ND_Cp_data)) if g.ND_Cp_data else (298.15, 298.15))
    units = consts()['units']
    k = sum(map(ord, case['group'])) % len(units)
    sel = [units[k], units[(k + 5) % len(units)], 'J/mol/K']
    if g.ND_Cp_data:
        array_identities(ctx, g, [float(rng[0]), 0.5 * (float(rng[0]) + float(rng[1])), float(rng[1])], sel, '%s group %s' % (case['lib'], case['group']))
    for T in (float(rng[0]), 0.5 * (float(rng[0]) + float(rng[1]))):
        try:
            identities(ctx, g, T, sel, '%s group %s' % (case['lib'], case['group']), None)
        except Exception as e:
            import traceback
            inner = [fr for fr in traceback.extract_tb(e.__traceback__) if '/pgradd/' in fr.filename]
            if not inner:
                raise
            ctx.fail('group-evaluation-raises:%s' % type(e).__name__, '%s group %s at T=%r: %s: %s'
                     % (case['lib'], case['group'], T, type(e).__name__, e))
            return


# -- the identities hold at every moment: after the data under an existing estimate changed, too ------------------------------
@st.composite
def changing_case(draw):
    from vlib import thermogen as TG
    n = draw(st.integers(1, 3))
    specs = [draw(TG.group_spec(cp='yes', H='yes', S='yes', with_range='yes')) for _ in range(n)]
    return dict(kind='changing', specs=specs, counts=[draw(st.sampled_from([1, 2, 0.5, -1, 3])) for _ in range(n)],
                dH=draw(st.sampled_from([2.5, -7.0, 40.0])), dS=draw(st.sampled_from([0.0, 1.5, -3.0])), which=draw(st.integers(0, 2)),
                units=draw(st.lists(st.sampled_from(consts()['units']), min_size=2, max_size=4, unique=True)), tf=draw(st.floats(0.05, 0.95)))


def check_changing(ctx, case):
    from vlib import thermogen as TG
    specs = case['specs']
    lib = TG.build_library(specs)
    mapping = {'G%d' % i: c for i, c in enumerate(case['counts'])}
    rs = [s['range'] for s in specs]
    lo, hi = max(r[0] for r in rs), min(r[1] for r in rs)
    if not lo < hi:
        ctx.event('skip:empty-range')
        return
    try:
        est = lib.Estimate(mapping, 'thermochem')
    except Exception:
        ctx.event('skip:estimate-refused')
        return
    T = lo + (hi - lo) * case['tf']
    label = 'synthetic estimate over %d groups' % len(specs)
    ctx.case(nontrivial=True, key=['changing', specs, case['counts'], case['dH'], case['dS']], sample=dict(groups=len(specs), T=T, units=case['units']))
    identities(ctx, est, T, case['units'], label, None)
    g0 = (quiet(est.get_GoRT, T), quiet(est.get_HoRT, T), quiet(est.get_SoR, T))
    # new reference values for one constituent (an overwriting merge, as a later data file would do)
    k = case['which'] % len(specs)
    sp = specs[k]
    donor = TG.build_group(dict(H=sp['H'] + case['dH'], S=sp['S'] + case['dS'], Ts=[], Cps=[], T_ref=sp['T_ref'], range=None))
    try:
        lib['G%d' % k]['thermochem'].update(donor, overwrite=True)
    except Exception as e:
        ctx.fail('overwriting-update-raises:%s' % type(e).__name__, 'update(overwrite=True) with new H_ref/S_ref raised %s: %s' % (type(e).__name__, e))
        return
    ctx.event('changing:group-data-overwritten')
    identities(ctx, est, T, case['units'], label + ' (after the reference values of one of its groups were overwritten)', None)
    g1 = (quiet(est.get_GoRT, T), quiet(est.get_HoRT, T), quiet(est.get_SoR, T))
    ctx.count()
    if abs(g1[0] - (g1[1] - g1[2])) > 1e-10 * max(1.0, abs(g1[1]), abs(g1[2])):
        ctx.fail('G-not-H-minus-S:after-data-change', '[%s] G/RT(%r) = %r, H/RT - S/R = %r (before the change: %r)' % (label, T, g1[0], g1[1] - g1[2], g0))


def check_any(ctx, case):
    return {'estimate': check_estimate, 'group': check_group, 'changing': check_changing}[case['kind']](ctx, case)


FAMILIES = [
    Family('estimates', check_any, strategy=lambda tier: estimate_case(), n=(3000, 100000)),
    Family('groups', check_any, enumerate=enum_groups),
    Family('changing-data', check_any, strategy=lambda tier: changing_case(), n=(600, 20000)),
]
