#!/venv/bin/python
"""Sensitivity self-test driver (not a registered check).

  selftest/mut.py <Cxx> <relpath> <old> <new> [--only fam] [--tier quick]
  selftest/mut.py --patch <file.diff> <Cxx> [...]
  selftest/mut.py --all            run every entry of selftest/mutants.json

Copies /repo/pgradd to a scratch dir outside /repo and /verif, applies one seeded
fault, runs the check with VERIF_REPO pointing there, prints the exit code and
removes the scratch dir.  A mutant is 'caught' when the check exits 1.
"""
import json, os, shutil, subprocess, sys, tempfile, time

HERE = os.path.dirname(os.path.dirname(os.path.abspath(__file__)))


def run_one(prop, edits=None, patch=None, only=None, tier='quick', keep_evidence=True, verbose=False):
    d = tempfile.mkdtemp(prefix='pgradd-mut-', dir=os.environ.get('TMPDIR', '/tmp'))
    try:
        shutil.copytree('/repo/pgradd', os.path.join(d, 'pgradd'), ignore=shutil.ignore_patterns('__pycache__'))
        if patch:
            r = subprocess.run(['patch', '-p1', '-s', '-i', os.path.abspath(patch)], cwd=d, capture_output=True, text=True)
            if r.returncode != 0:
                return dict(rc=None, error='patch failed: ' + r.stdout + r.stderr)
        for rel, old, new in edits or []:
            p = os.path.join(d, rel)
            s = open(p).read()
            if s.count(old) < 1:
                return dict(rc=None, error='pattern not found in %s: %r' % (rel, old))
            s = s.replace(old, new, 1)
            open(p, 'w').write(s)
        env = dict(os.environ, VERIF_REPO=d, PYTHONHASHSEED='0')
        # evidence of a mutant run must not overwrite the real one
        ev = os.path.join(HERE, 'evidence', prop + '.json')
        bak = None
        if os.path.exists(ev):
            bak = ev + '.bak'
            shutil.copy(ev, bak)
        cmd = [os.path.join(HERE, 'run_check.py'), prop, '--tier', tier, '--no-shrink']
        if only:
            cmd += ['--only', only]
        t0 = time.time()
        r = subprocess.run(cmd, cwd=HERE, env=env, capture_output=True, text=True)
        if bak:
            shutil.move(bak, ev)
        # replays written by mutant runs are scratch
        out = r.stdout
        for line in out.splitlines():
            if line.startswith('VIOLATION') and 'replay=' in line:
                rp = os.path.join(HERE, line.split('replay=')[1].strip())
                if os.path.exists(rp) and subprocess.run(['git', 'ls-files', '--error-unmatch', rp], cwd=HERE,
                                                         capture_output=True).returncode != 0:
                    os.remove(rp)
        return dict(rc=r.returncode, wall=round(time.time() - t0, 1), out=out[-1500:] if verbose else
                    '\n'.join(l for l in out.splitlines() if 'bucket=' in l)[:600], err=r.stderr[-800:] if r.returncode == 2 else '')
    finally:
        shutil.rmtree(d, ignore_errors=True)


def main():
    a = sys.argv[1:]
    if a and a[0] == '--all':
        muts = json.load(open(os.path.join(HERE, 'selftest', 'mutants.json')))
        sel = a[1:]
        nbad = 0
        for m in muts:
            if sel and m['property'] not in sel and m.get('id') not in sel:
                continue
            r = run_one(m['property'], edits=[(m['file'], m['old'], m['new'])] if 'file' in m else None,
                        patch=m.get('patch'), only=m.get('only'))
            ok = (r['rc'] == 1)
            nbad += (not ok)
            print('%s %-5s %-40s rc=%s wall=%s %s' % ('CAUGHT' if ok else 'MISSED', m['property'], m.get('id', ''), r['rc'],
                                                   r.get('wall'), (r.get('error') or r.get('out', '').split('\n')[0])[:160]))
            if r['rc'] == 2:
                print(r.get('err'))
            sys.stdout.flush()
        sys.exit(1 if nbad else 0)
    only = None
    if '--only' in a:
        i = a.index('--only'); only = a[i + 1]; del a[i:i + 2]
    if a[0] == '--patch':
        r = run_one(a[2], patch=a[1], only=only, verbose=True)
    else:
        r = run_one(a[0], edits=[(a[1], a[2], a[3])], only=only, verbose=True)
    print(json.dumps(r, indent=1))


if __name__ == '__main__':
    main()
