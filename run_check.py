#!/venv/bin/python
"""Entry point:  run_check.py <Cxx> [--tier quick|thorough] [--replay FILE] [--only fam,fam]

exit 0 = property held on everything explored (known findings allowed)
exit 1 = at least one unlisted violation (VIOLATION line printed)
exit 2 = harness error (never a VIOLATION line)
"""
import argparse
import os
import sys

os.environ.setdefault('PYTHONHASHSEED', '0')
HERE = os.path.dirname(os.path.abspath(__file__))
sys.path.insert(0, HERE)


def main():
    ap = argparse.ArgumentParser()
    ap.add_argument('prop')
    ap.add_argument('--tier', default=os.environ.get('VERIF_TIER', 'quick'), choices=['quick', 'thorough'])
    ap.add_argument('--replay')
    ap.add_argument('--only')
    ap.add_argument('--shards', type=int)
    ap.add_argument('--no-shrink', action='store_true')
    a = ap.parse_args()
    if os.environ.get('PYTHONHASHSEED') != '0':
        os.environ['PYTHONHASHSEED'] = '0'
        os.execv(sys.executable, [sys.executable] + sys.argv)
    try:
        seed = int(os.environ.get('VERIF_SEED', '1') or '1')
    except ValueError:
        seed = 1
    from vlib import core
    try:
        if a.replay:
            rc = core.replay(a.prop, a.replay)
        else:
            rc = core.run_check(a.prop, a.tier, seed, only=a.only.split(',') if a.only else None,
                                nshards=a.shards, do_shrink=not a.no_shrink)
    except SystemExit:
        raise
    except BaseException:
        import traceback
        sys.stderr.write('HARNESS-ERROR:\n' + traceback.format_exc())
        rc = 2
    sys.stdout.flush()
    sys.exit(rc)


if __name__ == '__main__':
    main()
